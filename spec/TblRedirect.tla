----------------------------- MODULE TblRedirect -----------------------------
(***************************************************************************)
(* C11: where may the authorization endpoint redirect to?                   *)
(* URIs are records (scheme, userinfo, host, port, path, query, fragment);  *)
(* the harness renders them to strings.  For every registered set and every *)
(* near-miss of a registered URI (one or two components changed), every     *)
(* response type / response mode / kind of request error, the specification *)
(* says whether a redirect to the requested URI is ALLOWED:                 *)
(*   - string-identical to a registered URI (record equality), or           *)
(*   - http + loopback IP literal + same host, path and query as a          *)
(*     registered URI (any port),                                           *)
(*   and absolute, without a fragment of its own.                           *)
(* The property is one-directional: redirected => allowed, and the target   *)
(* equals the requested URI (or the single registered one when omitted).    *)
(***************************************************************************)
EXTENDS Integers, Sequences, FiniteSets, TLC, Json, IOUtils, SequencesExt

CONSTANT Depth      \* 1: single-component near-misses, 2: also pairs of components

U(s, u, h, p, pa, q, f) == [scheme |-> s, userinfo |-> u, host |-> h, port |-> p, path |-> pa, query |-> q, fragment |-> f]

Registered ==
  { U("https", "", "client.example", "", "/cb", "", ""),
    U("https", "", "client.example", "", "/cb", "?a=1", ""),
    U("http", "", "127.0.0.1", "", "/cb", "", ""),
    U("http", "", "127.0.0.1", ":8080", "/cb", "?a=1", ""),
    U("http", "", "[::1]", "", "/cb", "", ""),
    U("http", "", "localhost", "", "/cb", "", ""),
    U("http", "", "client.example", "", "/cb", "", ""),
    U("http", "", "localhost.evil.example", "", "/cb", "", ""),      \* a remote host: "localhost" is not its last label
    U("https", "", "127.0.0.1", "", "/cb", "", ""),
    U("myapp", "", "client.example", "", "/cb", "", "") }

RegSets == {<<r>> : r \in Registered}
           \cup { <<U("https", "", "client.example", "", "/cb", "", ""), U("http", "", "127.0.0.1", "", "/cb", "", "")>>,
                  <<U("https", "", "client.example", "", "/cb", "", ""), U("https", "", "client.example", "", "/cb", "?a=1", "")>>,
                  <<U("http", "", "[::1]", "", "/cb", "", ""), U("http", "", "localhost", "", "/cb", "", "")>>,
                  <<>> }

Vals(f) ==
  CASE f = "scheme" -> {"https", "http", "myapp", "HTTPS", ""}
    [] f = "userinfo" -> {"", "user@", "client.example@"}
    [] f = "host" -> {"client.example", "CLIENT.example", "client.example.", "client.example.evil.example", "evil.example",
                      "127.0.0.1", "[::1]", "localhost", "127.0.0.1.evil.example", "127.1", "[::ffff:127.0.0.1]", "app.localhost", "127.0.0.2", ""}
    [] f = "port" -> {"", ":8080", ":443", ":80", ":0"}
    [] f = "path" -> {"/cb", "/cb/", "/CB", "/cb/../cb", "/%63b", "/cb2", "/cb/extra", "", "/", "//evil.example/cb"}
    [] f = "query" -> {"", "?a=1", "?a=2", "?a=1&b=2", "?A=1"}
    [] OTHER -> {"", "#frag", "#"}
Fields == {"scheme", "userinfo", "host", "port", "path", "query", "fragment"}

Near1(r) == UNION {{[r EXCEPT ![f] = v] : v \in Vals(f)} : f \in Fields}
Near2(r) == UNION {Near1(x) : x \in Near1(r)}
Near(r) == IF Depth >= 2 THEN Near2(r) ELSE Near1(r)

LoopbackLit == {"127.0.0.1", "[::1]", "[::ffff:127.0.0.1]", "127.0.0.2"}
Absolute(u) == u.scheme # "" /\ u.host # ""
(* spelling variants of a path that decode to the same path: the statement does not say
   whether "equal" means the spelled or the decoded path *)
Decoded(p) == IF p = "/%63b" THEN "/cb" ELSE p

Exact(req, reg) == \E i \in DOMAIN reg : reg[i] = req
Loopback(req, reg) ==
  req.scheme = "http" /\ req.host \in LoopbackLit
  /\ \E i \in DOMAIN reg : reg[i].host = req.host /\ reg[i].path = req.path /\ reg[i].query = req.query
LoopbackLoose(req, reg) ==
  req.scheme = "http" /\ req.host \in LoopbackLit
  /\ \E i \in DOMAIN reg : reg[i].host = req.host /\ Decoded(reg[i].path) = Decoded(req.path) /\ reg[i].query = req.query
NoOwnFragment(u) == u.fragment \in {"", "#"}      \* a bare "#" is an empty fragment: nothing of its own
Allowed(req, reg) == Absolute(req) /\ NoOwnFragment(req) /\ (Exact(req, reg) \/ Loopback(req, reg))
Undetermined(req, reg) == ~Allowed(req, reg) /\ Absolute(req) /\ NoOwnFragment(req) /\ LoopbackLoose(req, reg)

(* plain http is acceptable for the code flow only on loopback / localhost hosts *)
LocalHost(h) == h \in LoopbackLit \/ h = "localhost" \/ h = "app.localhost"
SecureForCode(u) == ~(u.scheme = "http" /\ ~LocalHost(u.host))

RTypes == {"code", "token"}
Modes == {"default", "form_post", "fragment"}
Errs == {"none", "scope", "state", "rtype"}       \* request errors raised after redirect validation

Rows ==
  UNION { UNION { { [reg |-> reg, omitted |-> FALSE, req |-> q, rtype |-> rt, mode |-> m, err |-> e, public |-> pb,
             allowed |-> Allowed(q, reg), undet |-> Undetermined(q, reg), code_ok |-> SecureForCode(q)] :
             rt \in RTypes, m \in IF Depth >= 2 THEN {"default"} ELSE Modes, e \in IF Depth >= 2 THEN {"none"} ELSE Errs,
             \* the kind of client does not enter any of the rules: a public client (with PKCE) is held to the same transport rule,
             \* so every plain-http request is also made by a public client
             pb \in IF q.scheme = "http" THEN BOOLEAN ELSE {FALSE} }
             : q \in UNION {Near(reg[i]) : i \in DOMAIN reg} \cup {U("https", "", "evil.example", "", "/cb", "", "")} }
          : reg \in RegSets }
  \cup { [reg |-> reg, omitted |-> TRUE, req |-> U("", "", "", "", "", "", ""), rtype |-> rt, mode |-> "default", err |-> e, public |-> FALSE,
          allowed |-> Len(reg) = 1 /\ Absolute(reg[1]) /\ reg[1].fragment = "", undet |-> FALSE,
          code_ok |-> Len(reg) = 1 /\ SecureForCode(reg[1])] : reg \in RegSets, rt \in RTypes, e \in Errs }

(* ---- requests that come in through a pushed authorization request -----------
   The redirect URI is fixed when the request is pushed (the pushed one, or the single registered one when none was
   pushed); a redirect_uri sent next to the request_uri in the front channel -- registered or not -- never replaces it. *)
Evil == U("https", "", "evil.example", "", "/cb", "", "")
ParFront(reg) == {Evil, U("https", "", "client.example", "", "/cb", "?a=1", ""), U("http", "", "127.0.0.1", ":9999", "/cb", "", "")}
                 \cup {reg[i] : i \in DOMAIN reg} \cup Near1(reg[1])
ParRow(reg, p, fo, q, rt) ==
  [par |-> TRUE, reg |-> reg, pushed |-> p, front_omitted |-> fo, front |-> q, rtype |-> rt,
   target_known |-> (p = "first" \/ Len(reg) = 1), target |-> reg[1], code_ok |-> SecureForCode(reg[1])]
ParRows ==
  UNION { { ParRow(reg, p, FALSE, q, rt) : p \in {"first", "omitted"}, q \in ParFront(reg), rt \in RTypes }
          \cup { ParRow(reg, p, TRUE, U("", "", "", "", "", "", ""), rt) : p \in {"first", "omitted"}, rt \in RTypes }
          : reg \in {r \in RegSets : Len(r) >= 1} }

(* sanity of the specification itself *)
ASSUME \A reg \in RegSets : \A i \in DOMAIN reg : Allowed(reg[i], reg)                      \* a registered URI is always allowed
ASSUME \A reg \in RegSets : ~Allowed(U("https", "", "evil.example", "", "/cb", "", ""), reg) \* a foreign one never
ASSUME \A r \in Registered : \A q \in Near1(r) : (q.fragment = "#frag" => ~Allowed(q, <<r>>))
ASSUME \A r \in ParRows : r.target_known => Allowed(r.target, r.reg) \/ ~Absolute(r.target) \/ r.target.fragment # ""
ASSUME PrintT(<<"ROWS", Cardinality(Rows), Cardinality(ParRows)>>)
ASSUME JsonSerialize(IOEnv.VERIF_TABLE_REDIRECT, SetToSeq(Rows) \o SetToSeq(ParRows))

VARIABLE x
Init == x = 0
Next == x' = x
Spec == Init /\ [][Next]_x
=============================================================================
