------------------------------ MODULE TblScope ------------------------------
(***************************************************************************)
(* C12, first half: the three scope strategies and the two audience         *)
(* strategies as decision specifications.  The documented rules are         *)
(* transcribed over a bounded structured domain; TLC enumerates the domain  *)
(* completely, checks algebraic relations between the strategies, and       *)
(* writes the table  input |-> expected verdict  as JSON.  The harness      *)
(* renders every row to strings and calls the real functions.               *)
(***************************************************************************)
EXTENDS Integers, Sequences, FiniteSets, TLC, Json, IOUtils, SequencesExt

CONSTANTS MaxLen      \* scopes have 1..MaxLen dot-separated segments

Seg == {"a", "ab", "b", "*", ""}      \* "ab": a segment that has another segment as a string prefix (a boundary is a dot, not a prefix)
Scopes == UNION {[1..n -> Seg] : n \in 1..MaxLen}

(* ---- the documented rules ------------------------------------------------- *)
Exact(p, n) == p = n
Hierarchic(p, n) == Len(p) <= Len(n) /\ SubSeq(n, 1, Len(p)) = p           \* a pattern covers itself and every dotted extension
SegMatch(ps, ns) == (ps = "*" /\ ns # "") \/ ps = ns                        \* a wildcard segment matches one non-empty segment
Wildcard(p, n) ==
  /\ Len(p) <= Len(n)
  /\ \A k \in 1..Len(p) : SegMatch(p[k], n[k])
  /\ (Len(p) < Len(n) => p[Len(p)] = "*")                                   \* only a trailing wildcard matches more segments
(* the documentation does not say whether the segments swallowed by a trailing wildcard may be
   empty; such rows are marked undetermined and the implementation's answer is only recorded *)
WildUndetermined(p, n) == Len(p) < Len(n) /\ \E k \in (Len(p) + 1)..Len(n) : n[k] = ""

ScopeRows ==
  { [p |-> p, n |-> n, exact |-> Exact(p, n), hier |-> Hierarchic(p, n), wild |-> Wildcard(p, n),
     wild_undet |-> WildUndetermined(p, n)] : p \in Scopes, n \in Scopes }

(* relations that must hold between the strategies on the whole domain *)
ASSUME \A p \in Scopes, n \in Scopes : Exact(p, n) => Hierarchic(p, n)
ASSUME \A p \in Scopes, n \in Scopes : (Exact(p, n) /\ \A k \in 1..Len(p) : p[k] # "*" \/ n[k] # "") => Wildcard(p, n)
ASSUME \A p \in Scopes : Exact(p, p) /\ Hierarchic(p, p)
ASSUME \A p \in Scopes, n \in Scopes : (Wildcard(p, n) /\ \A k \in 1..Len(p) : p[k] # "*") => (Exact(p, n))

(* ---- audiences ---------------------------------------------------------------- *)
Schemes == {"https", "http"}
Hosts == {"api.example", "api.example:8443", "API.example", "evil.example"}
PathSegs == {<<>>, <<"v1">>, <<"v1", "x">>, <<"v12">>, <<"v1x", "y">>, <<"v2">>}
Paths == [segs : PathSegs, slash : BOOLEAN]
URLs == [scheme : Schemes, host : Hosts, path : Paths]
AudMatch(h, n) == h.scheme = n.scheme /\ h.host = n.host /\ IsPrefix(h.path.segs, n.path.segs)   \* path prefix at a segment boundary
AudExact(h, n) == h = n
AudUndetermined(h, n) == h.host # n.host /\ {h.host, n.host} = {"api.example", "API.example"}      \* host case is not documented
AudRows == { [h |-> h, n |-> n, match |-> AudMatch(h, n), exact |-> AudExact(h, n), undet |-> AudUndetermined(h, n)] : h \in URLs, n \in URLs }
ASSUME \A h \in URLs, n \in URLs : AudExact(h, n) => AudMatch(h, n)

(* ---- confinement: every flow applies the configured strategy to the registration ---- *)
\* jwt_bearer_client: the JWT-bearer grant presented by an AUTHENTICATED client whose own registration covers the requested
\* scope: the signing key's registration still decides
Flows == {"authorize_code", "implicit", "hybrid", "ccreds", "password", "device", "par", "refresh", "jwt_bearer", "jwt_bearer_client"}
FlowScopes == {<<"a">>, <<"a", "b">>, <<"a", "*">>, <<"b">>, <<"*">>, <<"a", "b", "a">>}
Strat(s, p, n) == CASE s = "exact" -> Exact(p, n) [] s = "hier" -> Hierarchic(p, n) [] OTHER -> Wildcard(p, n)
FlowRows == { [flow |-> f, strat |-> s, dim |-> "scope", p |-> p, n |-> n, accept |-> Strat(s, p, n)] :
                f \in Flows, s \in {"exact", "hier", "wild"}, p \in FlowScopes, n \in FlowScopes }
FlowURLs == { [scheme |-> "https", host |-> h, path |-> [segs |-> ps, slash |-> FALSE]] :
                h \in {"api.example", "evil.example"}, ps \in {<<>>, <<"v1">>, <<"v1", "x">>, <<"v12">>} }
AudFlowRows == { [flow |-> f, strat |-> s, dim |-> "aud", h |-> h, n |-> n,
                  accept |-> IF s = "exact" THEN AudExact(h, n) ELSE AudMatch(h, n)] :
                f \in Flows \ {"jwt_bearer", "jwt_bearer_client"}, s \in {"exact", "default"}, h \in FlowURLs, n \in FlowURLs }

ASSUME PrintT(<<"ROWS", Cardinality(ScopeRows), Cardinality(AudRows), Cardinality(FlowRows), Cardinality(AudFlowRows)>>)
ASSUME JsonSerialize(IOEnv.VERIF_TABLE_FLOW, SetToSeq(FlowRows) \o SetToSeq(AudFlowRows))
ASSUME JsonSerialize(IOEnv.VERIF_TABLE_SCOPE, SetToSeq(ScopeRows))
ASSUME JsonSerialize(IOEnv.VERIF_TABLE_AUD, SetToSeq(AudRows))

VARIABLE x
Init == x = 0
Next == x' = x
Spec == Init /\ [][Next]_x
=============================================================================
