----------------------------- MODULE TblErrorWire -----------------------------
(***************************************************************************)
(* C20, first half: the wire format of errors and the cache marking of      *)
(* every response writer.  Writer x error x legacy/new format x debug       *)
(* exposure x kind of hint/debug text  |->  HTTP status, content type,      *)
(* cache headers, where the fields travel, which fields exist, and what the *)
(* DECODED description / hint / debug must equal as a composition of the    *)
(* atoms D (description), H (hint), G (debug).  The harness instantiates H  *)
(* and G with hostile strings (quotes, control characters, HTML, invalid    *)
(* UTF-8, long) and decodes the output with independent parsers.            *)
(***************************************************************************)
EXTENDS Integers, Sequences, FiniteSets, TLC, Json, IOUtils, SequencesExt

Errors == { <<"invalid_request", 400>>, <<"unauthorized_client", 400>>, <<"access_denied", 403>>, <<"unsupported_response_type", 400>>,
            <<"invalid_scope", 400>>, <<"server_error", 500>>, <<"temporarily_unavailable", 503>>, <<"unsupported_grant_type", 400>>,
            <<"invalid_grant", 400>>, <<"invalid_client", 401>>, <<"invalid_state", 400>>, <<"request_unauthorized", 401>>,
            <<"token_inactive", 401>>, <<"invalid_request_uri", 400>>, <<"authorization_pending", 400>>, <<"expired_token", 400>> }
JsonWriters == {"access", "par", "device", "authorize_no_redirect"}
RedirectWriters == {"authorize_query", "authorize_fragment", "authorize_form_post"}
Writers == JsonWriters \cup RedirectWriters \cup {"introspection", "revocation"}
Texts == {"plain", "quotes", "control", "html", "script", "non_utf8", "long", "unicode", "empty"}

(* composition of the decoded fields.  Q = double quotes replaced by single quotes. *)
NewDescription(hint, debugExposed) ==
  <<"D">> \o (IF hint THEN <<"H">> ELSE <<>>) \o (IF debugExposed THEN <<"G">> ELSE <<>>)     \* joined by one space, then Q

Row(w, e, legacy, expose, text, withDebug) ==
  LET isRev == w = "revocation"
      isIntro == w = "introspection"
      revJson == e[1] \in {"invalid_request", "invalid_client"}
      hint == text # "empty"
      dbg == withDebug /\ text # "empty"
  IN [ writer |-> w, error |-> e[1], legacy |-> legacy, expose |-> expose, text |-> text, with_debug |-> withDebug,
       status |-> CASE isRev -> (IF revJson THEN e[2] ELSE 200)
                    [] isIntro -> (IF e[1] \in {"request_unauthorized", "invalid_request"} THEN e[2] ELSE 200)
                    [] w \in {"authorize_query", "authorize_fragment"} -> 303
                    [] w = "authorize_form_post" -> 200
                    [] OTHER -> e[2],
       place |-> CASE w = "authorize_query" -> "query" [] w = "authorize_fragment" -> "fragment" [] w = "authorize_form_post" -> "form"
                   [] isRev /\ ~revJson -> "none"
                   [] isIntro /\ e[1] \notin {"request_unauthorized", "invalid_request"} -> "inactive"
                   [] OTHER -> "json",
       no_store |-> TRUE,
       \* which decoded members exist and what they must equal
       desc |-> IF (isRev \/ (legacy /\ ~isRev)) THEN (IF isRev THEN <<"D0">> ELSE <<"D">>) ELSE NewDescription(hint, dbg /\ expose),
       quote_replaced |-> ~legacy /\ ~isRev,
       hint_member |-> legacy /\ ~isRev /\ hint,
       debug_member |-> legacy /\ ~isRev /\ dbg /\ expose,
       debug_may_appear |-> expose /\ ~isRev,
       \* the state is reflected into the redirect / the form page: the DECODED value must be the client's string, whatever
       \* characters it holds (the harness sends & = + $ : @ ; # ? / quotes, angle brackets and %26 in the rows with hostile texts)
       state_echoed |-> w \in RedirectWriters ]

Rows == { Row(w, e, l, x, t, d) : w \in Writers, e \in Errors, l \in BOOLEAN, x \in BOOLEAN, t \in Texts, d \in BOOLEAN }

ASSUME \A r \in Rows : ~r.debug_may_appear => (~r.debug_member /\ "G" \notin {r.desc[i] : i \in DOMAIN r.desc})   \* debug only when the operator enabled it
(* the SUCCESSFUL responses of the same writers carry tokens, codes, request URIs or token metadata: the same marking *)
OkWriters == { <<"access", "tokens">>, <<"par", "request_uri">>, <<"device", "device and user code">>, <<"authorize_query", "code">>,
               <<"authorize_fragment", "access token">>, <<"authorize_form_post", "code">>, <<"authorize_form_post_token", "access token">>,
               <<"introspection_active", "token metadata">>, <<"introspection_inactive", "active=false">> }
OkRows == { [writer |-> w[1], carries |-> w[2], no_store |-> TRUE] : w \in OkWriters }

ASSUME PrintT(<<"ROWS", Cardinality(Rows), Cardinality(OkRows)>>)
ASSUME JsonSerialize(IOEnv.VERIF_TABLE_ERRWIRE, SetToSeq(Rows))
ASSUME JsonSerialize(IOEnv.VERIF_TABLE_OKWIRE, SetToSeq(OkRows))

VARIABLE x
Init == x = 0
Next == x' = x
Spec == Init /\ [][Next]_x
=============================================================================
