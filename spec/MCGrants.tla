------------------------------ MODULE MCGrants ------------------------------
(***************************************************************************)
(* Bounded model of Grants.tla.  Next picks one operation from a bounded,  *)
(* state-dependent alphabet chosen by the constant Family (one alphabet per *)
(* property family, so that each check explores the operations its property *)
(* talks about), applies the deterministic transition function Apply and    *)
(* records whether the action properties held for that step.                *)
(*                                                                          *)
(* Two uses:                                                                *)
(*  - exhaustive model checking (VIEW hides the history): the property      *)
(*    invariants hold in every reachable state of the bounded design;       *)
(*  - behaviour generation (-simulate, or BFS with the history in the       *)
(*    state): every history of length Depth is printed as JSON and replayed *)
(*    on the real code by the Go harness, whose trace is validated by       *)
(*    TraceGrants.tla.                                                      *)
(***************************************************************************)
EXTENDS Grants, Json, OpsLib, SequencesExt

CONSTANTS Family,     \* which alphabet: "C01", "C02", ...
          Cfgs,       \* set of configurations (records) explored from Init
          MaxCodes, MaxAT, MaxRT, MaxNow, MaxDev, MaxPar, Depth,
          Emit,       \* TRUE: print histories (generation runs)
          EmitAll     \* TRUE: print the history of EVERY state TLC finds new (with the VIEW: one shortest
                      \* witness history per distinct abstract state); FALSE: only histories of length Depth

VARIABLES st, hist, stepok, chg    \* chg: the last operation changed the abstract state

vars == <<st, hist, stepok, chg>>

BaseCfg == [at |-> "hmac", rscopes |-> <<"offline">>, pkce_all |-> FALSE, pkce_pub |-> FALSE, pkce_plain |-> FALSE,
            par_enf |-> FALSE, no_rt_intro |-> FALSE, l_code |-> 2, l_at |-> 3, l_rt |-> 6, l_dev |-> 2, l_par |-> 2,
            l_idt |-> 3, store |-> "mem", sess_noexp |-> FALSE]

CfgWith(a, rs, lrt) == [BaseCfg EXCEPT !.at = a, !.rscopes = rs, !.l_rt = lrt]
CfgsOne == {BaseCfg}
CfgsRS == {CfgWith("hmac", rs, 6) : rs \in {<<>>, <<"offline">>}}
CfgsRSB == {CfgWith("hmac", rs, 6) : rs \in {<<>>, <<"offline">>, <<"b">>}}
CfgsStrategies == {CfgWith(a, rs, 6) : a \in {"hmac", "jwt"}, rs \in {<<>>, <<"offline">>}}
(* the code family: refresh tokens that never expire are a configuration of their own on the redemption path *)
CfgsCode == {CfgWith("hmac", <<"offline">>, lrt) : lrt \in {6, -1}}
CfgsCodeT == {CfgWith(a, rs, lrt) : a \in {"hmac", "jwt"}, rs \in {<<>>, <<"offline">>}, lrt \in {6, -1}}
CfgsRefresh == {CfgWith(a, rs, lrt) : a \in {"hmac", "jwt"}, rs \in {<<>>, <<"offline">>, <<"b">>}, lrt \in {6, -1}}
CfgsPkce == {[BaseCfg EXCEPT !.pkce_all = pa, !.pkce_pub = pp, !.pkce_plain = pl] :
               pa \in BOOLEAN, pp \in BOOLEAN, pl \in BOOLEAN}
CfgsExpiry0 == {[BaseCfg EXCEPT !.at = a, !.l_rt = lrt, !.l_code = 1, !.l_at = 2, !.l_par = 1, !.l_dev = 1] : a \in {"hmac", "jwt"}, lrt \in {3, -1}}
(* sess_noexp: the application's session type forgets the expiry of (opaque) access tokens: the strategy falls back to
   requested_at + lifetime; nothing in the specification depends on it *)
CfgsExpiry == CfgsExpiry0 \cup {[c EXCEPT !.sess_noexp = TRUE] : c \in {x \in CfgsExpiry0 : x.at = "hmac"}}
CfgsIntrospect == {[BaseCfg EXCEPT !.at = a, !.no_rt_intro = n, !.l_at = 1] : a \in {"hmac", "jwt"}, n \in BOOLEAN}   \* short-lived access tokens: expired callers / expired inspected tokens are reachable
CfgsDevice == {[BaseCfg EXCEPT !.store = s, !.rscopes = rs] : s \in {"mem", "contract"}, rs \in {<<>>, <<"offline">>}}
CfgsPar == {[BaseCfg EXCEPT !.par_enf = e] : e \in BOOLEAN}

(* "copy": a store that copies requests on the way in and out and loads the client's current registration on read (what
   every store that serialises requests does); the specification does not distinguish it from the reference store.
   The simulated histories run under both. *)
WithCopy(S) == S \cup {[c EXCEPT !.store = "copy"] : c \in {x \in S : x.store = "mem"}}
CfgsOneC == WithCopy(CfgsOne)
CfgsRSC == WithCopy(CfgsRS)
CfgsRSBC == WithCopy(CfgsRSB)
CfgsStrategiesC == WithCopy(CfgsStrategies)
CfgsRefreshC == WithCopy(CfgsRefresh)
CfgsCodeC == WithCopy(CfgsCode)
CfgsCodeTC == WithCopy(CfgsCodeT)
CfgsPkceC == WithCopy(CfgsPkce)
CfgsExpiryC == WithCopy(CfgsExpiry)
CfgsIntrospectC == WithCopy(CfgsIntrospect)
CfgsDeviceC == WithCopy(CfgsDevice)
CfgsParC == WithCopy(CfgsPar)

\* only credentials that were handed to somebody can be presented
Codes == {x \in DOMAIN st.S.code : st.S.code[x].dl}
ATs == {x \in DOMAIN st.S.at : st.S.at[x].dl}
RTs == {x \in DOMAIN st.S.rt : st.S.rt[x].dl}
Devs == {x \in DOMAIN st.S.dev : st.S.dev[x].dl}
Pars == {x \in DOMAIN st.S.par : st.S.par[x].dl}
Owner(k) == st.S.code[k].client
Other(c) == IF c = "A" THEN "B" ELSE "A"
CanAuthz == Count(st.S.code) < MaxCodes /\ Count(st.S.at) < MaxAT
CanMint == Count(st.S.at) < MaxAT /\ Count(st.S.rt) < MaxRT
Full == <<"openid", "offline", "a">>
TickOps == IF st.now < MaxNow THEN {Tick} ELSE {}
(* the clock jumps to the end of the modelled time in one step: late states within a short history *)
JumpOps == IF st.now + 1 < MaxNow THEN {[op |-> "tick", n |-> MaxNow - st.now]} ELSE {}

(* ---- refinement of the family core (FamilyCore.tla, whose invariant Apalache shows inductive) ---- *)
FCrt == [j \in 1..MaxRT |-> IF ~Has(st.S.rt, j) THEN "free"
                            ELSE IF st.S.rt[j].present /\ st.S.rt[j].active THEN "active"
                            ELSE IF st.S.rt[j].why = "rotated" THEN "used" ELSE "dead"]
FCfam == [j \in 1..MaxRT |-> IF Has(st.S.rt, j) THEN st.S.rt[j].rid ELSE 0]
FCat == [j \in 1..MaxRT |-> Has(st.S.rt, j) /\ \E i \in DOMAIN st.S.at :
                              st.S.at[i].present /\ st.S.at[i].via = "token" /\ st.S.at[i].ep = st.S.rt[j].ep]
FCkilled == {st.S.rt[j].rid : j \in {x \in DOMAIN st.S.rt : st.S.rt[x].why \in {"reuse", "replay", "revoked"}}}
FC == INSTANCE FamilyCore WITH N <- MaxRT, M <- 24, rt <- FCrt, fam <- FCfam, at <- FCat, killed <- FCkilled
FCInv == FC!IndInv
FCRefines == [][FC!Next \/ UNCHANGED <<FCrt, FCfam, FCat, FCkilled>>]_vars

(* ---- alphabets ------------------------------------------------------------ *)
OpsC01 ==   \* code single use; replay after refreshes; hybrid codes; other grants interleaved
  (IF CanAuthz THEN {Authz(c, rt, Full, Full, <<>>, "sent", "none") : c \in {"A", "B"}, rt \in {"code", "code_token", "code_idt_token"}}
                    \cup {Authz("A", "code", <<"a">>, <<"a">>, <<>>, "sent", "none")}     \* no offline scope: a refresh token all the same when none is required
                    \cup {Authz("A", "code", <<"a">>, <<>>, <<>>, "sent", "none")}        \* nothing granted at all: still a grant, with a family of its own
                    \cup {Authz("P", "code", Full, Full, <<>>, "sent", "none")}           \* a public client's code: replayed by somebody nobody authenticates
   ELSE {})
  \cup (IF CanMint THEN {Redeem(Owner(k), "ok", k, "same", "none", <<>>, <<>>) : k \in Codes} ELSE {})
  \cup UNION {{Redeem(c, a, k, rd, "none", <<>>, <<>>) : c \in {Owner(k), Other(Owner(k))}, a \in {"ok", "bad"}, rd \in {"same", "absent"}} :
                  k \in {x \in Codes : ~st.S.code[x].active}}                          \* replay by anybody, any way
  \cup (IF CanMint THEN {Refresh(st.S.rt[j].client, "ok", j, <<>>, <<>>) : j \in RTs} ELSE {})
  \cup {Refresh(st.S.rt[j].client, "ok", j, <<>>, <<>>) : j \in {x \in RTs : ~RTActive(st, x)}}
  \cup {Revoke(st.S.rt[j].client, "ok", "rt", j, "none") : j \in RTs}
  \cup {Revoke(st.S.at[i].client, "ok", "at", i, "none") : i \in ATs}
  \cup TickOps

OpsC01b ==  \* the life of ONE code and its tokens over time: replay at every age of the code, before and after refreshes
  (IF CanAuthz THEN {Authz("A", rt, Full, Full, <<>>, "sent", "none") : rt \in {"code", "code_token"}} \cup {Authz("A", "code", <<"a">>, <<"a">>, <<>>, "sent", "none")} ELSE {})
  \cup (IF CanMint THEN {Redeem(Owner(k), "ok", k, "same", "none", <<>>, <<>>) : k \in Codes} ELSE {})
  \cup {Redeem(Owner(k), "ok", k, "same", "none", <<>>, <<>>) : k \in {x \in Codes : ~st.S.code[x].active}}
  \cup (IF CanMint THEN {Refresh(st.S.rt[j].client, "ok", j, <<>>, <<>>) : j \in {x \in RTs : RTActive(st, x)}} ELSE {})
  \cup TickOps

OpsC02 ==   \* client / redirect / lifetime binding; smuggled parameters; grant immutability
  (IF CanAuthz THEN {Authz(c, rt, <<"openid", "offline", "a", "b">>, gr, au, rd, "none") :
        c \in {"A", "P"}, rt \in {"code", "code_idt"}, gr \in {Full, <<"offline", "a">>}, au \in {<<>>, <<AudA>>},
        rd \in {"sent"}} \cup {Authz(c, "code", <<"offline", "a">>, <<"a">>, <<>>, "omit", "none") : c \in {"A", "P"}}
        \cup {AuthzG("A", rt, <<"offline", "a">>, <<"offline", "a">>, <<AudA, AudB>>, ga, "sent", "none") : rt \in {"code", "code_token"}, ga \in {<<AudA>>, <<>>}}    \* two audiences requested, one / none granted
   ELSE {})
  \cup (IF CanMint THEN
         {Redeem(c, a, k, rd, "none", xs, xa) : k \in Codes, c \in {"A", "B", "P"}, a \in {"ok", "bad", "none"},
              rd \in {"same", "absent", "diff", "enc"}, xs \in {<<>>, <<"b", "openid">>}, xa \in {<<>>, <<AudB>>}}
         \cup {Redeem("P", "hdr_victim", k, "same", "none", <<>>, <<>>) : k \in Codes} ELSE {})
  \cup (IF CanMint THEN {Refresh(st.S.rt[j].client, "ok", j, <<>>, <<>>) : j \in RTs} ELSE {})
  \cup TickOps \cup JumpOps

Verifiers == {"none", "right", "wrong", "short", "long", "illegal", "other"}
OpsC03 ==   \* PKCE: every sequence of attempts on a code
  (IF CanAuthz THEN {Authz(c, rt, <<"offline", "a">>, <<"offline", "a">>, <<>>, "sent", pk) :
        c \in {"A", "P"}, rt \in {"code", "code_token"}, pk \in {"none", "S256", "plain", "plain_nm", "plain_short", "s256lc"}}
        \cup {AuthzIll("A", "code", <<"offline", "a">>, <<"offline", "a">>, <<>>, "sent", pk, ill) :
                 pk \in {"S256_ill", "plain_ill"}, ill \in {"bang", "bracket", "caret", "backtick", "backslash", "space", "plus"}} ELSE {})
  \cup (IF CanMint THEN {Redeem(Owner(k), "ok", k, "same", v, <<>>, <<>>) : k \in Codes, v \in Verifiers} ELSE {})

OpsC04 ==   \* rotation and reuse over several grants of different origin
  (IF CanAuthz THEN {Authz("A", rt, Full, Full, <<>>, "sent", "none") : rt \in {"code", "code_token"}}
                    \cup {Authz("P", "code", Full, Full, <<>>, "sent", "none")} ELSE {})        \* a public client's grant: nobody authenticates on reuse
  \cup (IF CanMint THEN {Redeem(Owner(k), "ok", k, "same", "none", <<>>, <<>>) : k \in {x \in Codes : st.S.code[x].active}} ELSE {})
  \cup (IF CanMint THEN {Password("B", "ok", "ok", <<"offline", "a">>, <<>>)} ELSE {})
  \cup (IF CanMint /\ Count(st.S.dev) < MaxDev THEN {DevStart("P", "ok", Full, Full, <<>>)} ELSE {})
  \cup {DevDecide(d, "accept") : d \in {x \in Devs : st.S.dev[x].ustate = "unused"}}
  \cup (IF CanMint THEN {DevPoll("P", "ok", d) : d \in {x \in Devs : st.S.dev[x].ustate = "accepted" /\ st.S.dev[x].present}} ELSE {})
  \cup (IF CanMint THEN {Refresh(st.S.rt[j].client, "ok", j, <<>>, <<>>) : j \in RTs} ELSE {})
  \cup {Refresh(st.S.rt[j].client, "ok", j, <<>>, <<>>) : j \in {x \in RTs : ~RTActive(st, x)}}
  \cup {Refresh(Other(st.S.rt[j].client), "ok", j, <<>>, <<>>) : j \in {x \in RTs : ~RTActive(st, x)}}   \* reuse presented by a stranger
  \cup {Revoke(st.S.rt[j].client, "ok", "rt", j, "rt") : j \in RTs}
  \cup TickOps

OpsC04b ==  \* the life of ONE grant over time: rotation and reuse at every age of every generation (short lifetimes)
  (IF CanMint /\ Count(st.S.rt) = 0 THEN {Password("A", "ok", "ok", <<"offline", "a">>, <<>>)} ELSE {})
  \cup (IF CanMint THEN {Refresh("A", "ok", j, <<>>, <<>>) : j \in RTs} ELSE {})
  \cup {Refresh("A", "ok", j, <<>>, <<>>) : j \in {x \in RTs : ~RTActive(st, x)}}
  \cup TickOps

OpsC05 ==   \* refresh never widens, never crosses clients; issuance rule
  (IF CanAuthz THEN {Authz(c, "code", <<"openid", "offline", "a", "b">>, gr, au, "sent", "none") :
        c \in {"A", "P"}, gr \in {Full, <<"a", "b">>, <<"offline", "b">>}, au \in {<<>>, <<AudA>>, <<AudA, AudB>>}}
        \cup {AuthzG("A", "code", Full, Full, <<AudA, AudB>>, <<AudA>>, "sent", "none")} ELSE {})
  \cup (IF CanMint THEN {Redeem(Owner(k), "ok", k, "same", "none", <<>>, <<>>) : k \in {x \in Codes : st.S.code[x].active}} ELSE {})
  \cup (IF CanMint THEN {Password("A", "ok", "ok", sc, au) : sc \in {<<"a">>, <<"offline", "a">>}, au \in {<<>>, <<AudA>>}}
                       \cup {PasswordG("A", "ok", "ok", <<"offline", "a">>, <<"a">>, <<>>)} ELSE {})     \* the refresh scope requested, not granted
  \cup (IF CanMint THEN {Refresh(c, a, j, xs, xa) : j \in RTs, c \in {"A", "B", "P"}, a \in {"ok", "bad"},
              xs \in {<<>>, <<"b", "openid", "offline">>}, xa \in {<<>>, <<AudB>>}} ELSE {})
  \cup {ClientChange(c, f[1], f[2]) : c \in {"A", "P"},
          f \in {<<"rm_scope", "b">>, <<"rm_scope", "offline">>, <<"rm_aud", AudA>>, <<"rm_aud", AudB>>, <<"rm_aud", "*">>, <<"rm_grant", "refresh_token">>, <<"restore", "">>}}

OpsC05b ==  \* the refresh-token ISSUANCE rule in every flow that can issue one: refresh scopes x client grant types
  (IF CanAuthz THEN {Authz(c, rt, sc, sc, <<>>, "sent", "none") : c \in {"A", "P"}, rt \in {"code", "code_token"}, sc \in {<<"offline", "a">>, <<"a">>}} ELSE {})
  \cup (IF CanMint THEN {Redeem(Owner(k), "ok", k, "same", "none", <<>>, <<>>) : k \in {x \in Codes : st.S.code[x].active}} ELSE {})
  \cup (IF CanMint THEN {Password("A", "ok", "ok", sc, <<>>) : sc \in {<<"a">>, <<"offline", "a">>}} ELSE {})
  \cup (IF Count(st.S.dev) < MaxDev THEN {DevStart("P", "ok", sc, sc, <<>>) : sc \in {<<"offline", "a">>, <<"a">>}} ELSE {})
  \cup {DevDecide(d, "accept") : d \in {x \in Devs : st.S.dev[x].ustate = "unused"}}
  \cup (IF CanMint THEN {DevPoll("P", "ok", d) : d \in {x \in Devs : st.S.dev[x].ustate = "accepted" /\ st.S.dev[x].present}} ELSE {})
  \cup (IF CanMint THEN {Refresh(st.S.rt[j].client, "ok", j, <<>>, <<>>) : j \in RTs} ELSE {})
  \cup {ClientChange(c, f[1], f[2]) : c \in {"A", "P"}, f \in {<<"rm_grant", "refresh_token">>, <<"restore", "">>}}

OpsC05c ==  \* the life of ONE grant across generations while the client's registration changes underneath it
  (IF CanMint /\ Count(st.S.rt) = 0 THEN {Password("A", "ok", "ok", <<"offline", "a", "b">>, <<AudA>>)} ELSE {})
  \cup (IF CanMint THEN {Refresh("A", "ok", j, xs, <<>>) : j \in {x \in RTs : RTActive(st, x)}, xs \in {<<>>, <<"a">>}} ELSE {})
  \cup {ClientChange("A", f[1], f[2]) : f \in {<<"rm_scope", "b">>, <<"rm_aud", "*">>, <<"rm_grant", "refresh_token">>, <<"restore", "">>}}

OpsC07 ==   \* expiry of every stateful credential kind
  (IF CanAuthz THEN {Authz("A", rt, Full, Full, <<>>, "sent", "none") : rt \in {"code", "code_token", "token"}} ELSE {})
  \cup (IF CanMint THEN {Redeem(Owner(k), "ok", k, "same", "none", <<>>, <<>>) : k \in {x \in Codes : st.S.code[x].active}} ELSE {})
  \cup (IF CanMint THEN {Refresh(st.S.rt[j].client, "ok", j, <<>>, <<>>) : j \in {x \in RTs : st.S.rt[x].active /\ st.S.rt[x].present}} ELSE {})
  \cup (IF CanMint THEN {CCreds("A", "ok", <<"a">>, <<>>)} ELSE {})
  \cup (IF Count(st.S.dev) < MaxDev THEN {DevStart("P", "ok", Full, Full, <<>>)} ELSE {})
  \cup {DevDecide(d, dec) : d \in {x \in Devs : st.S.dev[x].ustate = "unused"}, dec \in {"accept", "accept_fresh", "accept_user_later"}}
  \cup (IF CanMint THEN {DevPoll("P", "ok", d) : d \in {x \in Devs : st.S.dev[x].present}} ELSE {})
  \cup (IF Count(st.S.par) < MaxPar THEN {Push("A", "ok", "code", <<"offline", "a">>, <<>>, "sent", "none", 0)} ELSE {})
  \cup (IF CanAuthz THEN {UsePar("A", "own", u, "none") : u \in {x \in Pars : st.S.par[x].present}} ELSE {})
  \cup TickOps

OpsC07b ==  \* the life of ONE grant of each origin (code, password, device) through time with short lifetimes, refreshed at any age
  (IF Count(st.S.code) = 0 /\ Count(st.S.dev) = 0 /\ Count(st.S.rt) = 0
   THEN {Authz("A", "code", Full, Full, <<>>, "sent", "none"), Password("A", "ok", "ok", <<"offline", "a">>, <<>>), DevStart("P", "ok", Full, Full, <<>>)}
   ELSE {})
  \cup (IF CanMint THEN {Redeem(Owner(k), "ok", k, "same", "none", <<>>, <<>>) : k \in {x \in Codes : st.S.code[x].active}} ELSE {})
  \cup {DevDecide(d, "accept") : d \in {x \in Devs : st.S.dev[x].ustate = "unused"}}
  \cup (IF CanMint THEN {DevPoll("P", "ok", d) : d \in {x \in Devs : st.S.dev[x].present}} ELSE {})
  \cup (IF CanMint THEN {Refresh(st.S.rt[j].client, "ok", j, <<>>, <<>>) : j \in {x \in RTs : st.S.rt[x].active /\ st.S.rt[x].present}} ELSE {})
  \cup TickOps

OpsC08 ==   \* revocation: every token, every hint, owner / foreign / unauthenticated caller
  (IF CanAuthz THEN {Authz("A", rt, Full, Full, <<>>, "sent", "none") : rt \in {"code", "code_token", "token"}} ELSE {})
  \cup (IF CanMint THEN {Redeem(Owner(k), "ok", k, "same", "none", <<>>, <<>>) : k \in {x \in Codes : st.S.code[x].active}} ELSE {})
  \cup (IF CanMint THEN {Password("B", "ok", "ok", <<"offline", "a">>, <<>>)} ELSE {})
  \cup (IF CanMint THEN {Refresh(st.S.rt[j].client, "ok", j, <<>>, <<>>) : j \in RTs} ELSE {})
  \cup {Revoke(c, a, "rt", j, h) : j \in RTs, c \in {"A", "B"}, a \in {"ok", "bad", "none"}, h \in {"rt", "at", "bad", "none"}}
  \cup {Revoke(c, a, "at", i, h) : i \in ATs, c \in {"A", "B"}, a \in {"ok", "bad"}, h \in {"rt", "at", "bad", "none"}}
  \cup {Revoke("P", "ok", "rt", j, h) : j \in RTs, h \in {"rt", "none"}}      \* a foreign PUBLIC client (identified, no secret)
  \cup {Revoke("P", "ok", "at", i, h) : i \in ATs, h \in {"at", "none"}}
  \cup {Revoke("A", "ok", "unk", 0, h) : h \in {"rt", "none"}}
  \cup (IF CanMint /\ ~JTIKnown(st.S, "jb-1") THEN {[op |-> "jbearer", val |-> "jb-1"]} ELSE {})     \* a token that belongs to no client: nobody may revoke it
  \cup TickOps

OpsC08b ==  \* revocation of tokens of every age (expired ones included) by owner and stranger, one grant, short lifetimes
  (IF CanMint /\ Count(st.S.rt) = 0 THEN {Password("A", "ok", "ok", <<"offline", "a">>, <<>>)} ELSE {})
  \cup (IF CanMint THEN {Refresh("A", "ok", j, <<>>, <<>>) : j \in {x \in RTs : RTActive(st, x)}} ELSE {})
  \cup {Revoke(c, "ok", "rt", j, h) : j \in RTs, c \in {"A", "B"}, h \in {"rt", "none"}}
  \cup {Revoke(c, "ok", "at", i, h) : i \in ATs, c \in {"A", "B"}, h \in {"at", "none"}}
  \cup TickOps

\* a required-scope list that repeats itself is longer than any granted list and still covered exactly when its members are
LongNeeds == {<<"a", "a", "a", "a", "a">>, <<"a", "b", "a", "b", "a">>}
OpsC09 ==   \* introspection endpoint: callers, hints, required scopes, over states reached by all grant types
  (IF CanAuthz THEN {Authz("A", rt, Full, Full, <<AudA>>, "sent", "none") : rt \in {"code", "code_token"}}
                    \cup {Authz("A", "code", <<"openid", "offline", "a", "b">>, Full, <<>>, "sent", "none")}      \* partial consent: b requested, not granted
   ELSE {})
  \cup (IF CanMint THEN {Redeem(Owner(k), "ok", k, "same", "none", <<>>, <<>>) : k \in Codes} ELSE {})
  \cup (IF CanMint THEN {CCreds("B", "ok", <<"a", "b">>, <<>>)} ELSE {})
  \cup (IF CanMint THEN {Refresh(st.S.rt[j].client, "ok", j, <<>>, <<>>) : j \in RTs} ELSE {})
  \cup {Revoke(st.S.at[i].client, "ok", "at", i, "none") : i \in ATs}
  \cup {Introspect(c, caller, n, kind, t, h, need) :
          c \in {"A", "P"}, caller \in {"basic", "basic_bad", "none"}, n \in {0},
          kind \in {"at"}, t \in ATs, h \in {"at", "rt", "none"}, need \in {<<>>, <<"a">>, <<"b">>, <<"a", "b">>, <<"b", "a">>} \cup LongNeeds}
  \cup {Introspect("A", "basic", 0, "rt", t, h, need) : t \in RTs, h \in {"at", "rt", "bad"}, need \in {<<>>, <<"offline">>, <<"b">>, <<"offline", "b">>, <<"offline", "a", "offline", "a", "offline">>}}
  \cup {Introspect("A", caller, n, "at", t, "none", <<>>) : caller \in {"bearer", "self"}, n \in ATs, t \in ATs}
  \cup {Introspect("A", "bearer", t, "at", t, h, <<>>) : t \in ATs, h \in {"at", "rt", "bad"}}     \* a token vouching for itself, under every hint
  \cup {Introspect("A", "bearer_rt", n, "at", t, "none", <<>>) : n \in RTs, t \in ATs}
  \cup {Introspect("A", "basic", 0, "unk", 0, "none", <<>>)}
  \cup TickOps

OpsC16 ==   \* device grant state machine
  (IF Count(st.S.dev) < MaxDev THEN {DevStart(c, "ok", sc, sc, <<>>) : c \in {"A", "P"}, sc \in {Full, <<"a">>}} ELSE {})
  \cup {DevDecide(d, dec) : d \in Devs, dec \in {"accept", "accept_fresh", "reject"}}
  \cup (IF CanMint THEN {DevPoll(c, a, d) : d \in Devs, c \in {"A", "P"}, a \in {"ok", "bad"}} ELSE {})
  \cup (IF CanMint THEN {DevPoll("P", "hdr_victim", d) : d \in Devs} ELSE {})     \* a public client names itself in the header and the flow's client in the body
  \cup (IF CanMint THEN {DevPollForged(st.S.dev[d].client, "ok", d, how) : d \in {x \in Devs : st.S.dev[x].present}, how \in {"sig_only", "sig_junk"}} ELSE {})
  \cup {DevPoll(st.S.dev[d].client, "ok", d) : d \in {x \in Devs : ~st.S.dev[x].present}}
  \cup (IF CanMint THEN {Refresh(st.S.rt[j].client, "ok", j, <<>>, <<>>) : j \in RTs} ELSE {})
  \cup TickOps

OpsC16b ==  \* the life of ONE device code over time: every decision, polls at every age, replay, by the owner
  (IF Count(st.S.dev) < MaxDev THEN {DevStart("P", "ok", Full, Full, <<>>)} ELSE {})
  \cup {DevDecide(d, dec) : d \in {x \in Devs : st.S.dev[x].ustate = "unused"}, dec \in {"accept", "accept_fresh", "accept_user_later", "reject"}}
  \cup (IF CanMint THEN {DevPoll("P", "ok", d) : d \in Devs} ELSE {})
  \cup TickOps

OpsC17 ==   \* pushed authorization requests
  (IF Count(st.S.par) < MaxPar THEN
        {Push(c, a, rt, sc, au, rd, "none", 0) : c \in {"A", "B"}, a \in {"ok", "bad", "none"}, rt \in {"code", "code_token"},
             sc \in {<<"offline", "a">>, Full}, au \in {<<>>, <<AudA>>}, rd \in {"sent"}}
        \cup {Push("A", "ok", "code", <<"a">>, <<>>, "omit", "none", 0)}
        \cup {Push("A", "ok", "code", <<"a">>, <<>>, "sent", "request_uri", u) : u \in Pars} ELSE {})
  \cup (IF CanAuthz THEN
        {UsePar(c, "own", u, f) : c \in {"A", "B"}, u \in Pars,
             f \in {"none", "redirect_uri", "response_type", "scope", "state", "audience", "response_mode", "nonce"}}
        \cup {UsePar("A", kind, 0, "none") : kind \in {"unknown", "foreign_prefix", "foreign_prefix_full", "absent"}}
        \cup {Authz("A", "code", <<"a">>, <<"a">>, <<>>, "sent", "none")} ELSE {})
  \cup (IF CanMint THEN {Redeem(Owner(k), "ok", k, "same", "none", <<>>, <<>>) : k \in {x \in Codes : st.S.code[x].active}} ELSE {})
  \cup TickOps

OpsC17b ==  \* the life of ONE request_uri over a longer history: use, second use, use after every age, by either client
  (IF Count(st.S.par) < MaxPar THEN {Push("A", "ok", rt, <<"offline", "a">>, <<>>, "sent", "none", 0) : rt \in {"code", "code_token"}} ELSE {})
  \cup (IF CanAuthz THEN {UsePar(c, "own", u, "none") : c \in {"A", "B"}, u \in Pars} ELSE {})
  \cup (IF CanMint THEN {Redeem(Owner(k), "ok", k, "same", "none", <<>>, <<>>) : k \in {x \in Codes : st.S.code[x].active}} ELSE {})
  \cup TickOps

Ops ==
  CASE Family = "C01" -> OpsC01 [] Family = "C01b" -> OpsC01b [] Family = "C02" -> OpsC02 [] Family = "C03" -> OpsC03
    [] Family = "C04" -> OpsC04 [] Family = "C04b" -> OpsC04b [] Family = "C05" -> OpsC05 [] Family = "C05b" -> OpsC05b [] Family = "C05c" -> OpsC05c [] Family = "C07" -> OpsC07 [] Family = "C07b" -> OpsC07b
    [] Family = "C08" -> OpsC08 [] Family = "C08b" -> OpsC08b [] Family = "C09" -> OpsC09 [] Family = "C16" -> OpsC16 [] Family = "C16b" -> OpsC16b
    [] Family = "C17" -> OpsC17 [] Family = "C17b" -> OpsC17b
    [] OTHER -> OpsC01 \cup OpsC04 \cup OpsC08 \cup OpsC16 \cup OpsC17

Init == /\ \E c \in Cfgs : st = InitState(c)
        /\ hist = <<>> /\ stepok = TRUE /\ chg = FALSE

Next ==
  /\ Len(hist) < Depth
  /\ \E op \in Ops :
        LET r == Apply(st, op) IN
        /\ st' = r.st
        /\ hist' = Append(hist, op)
        /\ stepok' = StepInvariant(st, op, r)
        /\ chg' = (r.st # st)

Spec == Init /\ [][Next]_vars

(* ---- invariants -------------------------------------------------------------- *)
InvState == StateInvariant(st)
InvStep == stepok
TypeOK ==
  /\ st.now \in 0..(MaxNow + 1)
  /\ \A i \in DOMAIN st.S.at : st.S.at[i].client \in Clients \cup {""} /\ st.S.at[i].scopes \subseteq AllScopes
  /\ \A j \in DOMAIN st.S.rt : st.S.rt[j].client \in Clients /\ st.S.rt[j].scopes \subseteq AllScopes
  /\ DOMAIN st.S.at = 1..Count(st.S.at) /\ DOMAIN st.S.rt = 1..Count(st.S.rt) /\ DOMAIN st.S.code = 1..Count(st.S.code)

(* a VIEW that hides the history: states with equal abstract state are identified *)
(* ... except for what the specification does not distinguish but the request on the wire does: two operations that
   lead to the same abstract state (a revocation with the right, a wrong or no token_type_hint; "accept" and "accept
   and replace the session") would otherwise share ONE witness in the state cover *)
Tag(op) ==
  CASE op.op = "revoke" -> <<op.hint, op.kind>>
    [] op.op = "devdecide" -> <<op.dec>>
    [] op.op = "redeem" -> <<op.redir>>
    [] op.op = "usepar" -> <<op.field>>
    [] OTHER -> <<>>
View == <<st, stepok>>                                                  \* design check
ViewGen == <<st, stepok, IF chg THEN Tag(hist[Len(hist)]) ELSE <<>>>>    \* state-cover generation (shallower)

(* generation: print every complete history *)
(* operations of the alphabet that leave the abstract state as it is (refused attempts, pure queries): the state
   cover cannot end in one of them -- their successor is never a new state -- so they are printed with the witness
   of the state and appended to it by the generator *)
Inert == {op \in Ops : Apply(st, op).st = st}
EmitHist == (Emit /\ (IF EmitAll THEN Len(hist) > 0 ELSE Len(hist) = Depth)) =>
              PrintT(<<"HIST", ToJson([cfg |-> st.cfg, ops |-> hist, tail |-> IF EmitAll THEN SetToSeq(Inert) ELSE <<>>])>>)
=============================================================================
