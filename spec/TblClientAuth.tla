---------------------------- MODULE TblClientAuth ----------------------------
(***************************************************************************)
(* C10: who is authenticated as a client, by which transport, at which      *)
(* endpoint.  Registration x credential transport x secret relation x       *)
(* presented id x endpoint  |->  authentication verdict and endpoint        *)
(* outcome.  The rules are transcribed from the documented behaviour        *)
(* (RFC 6749 2.3.1, OIDC Core 9 token_endpoint_auth_method):                *)
(*  - credentials come from the Basic header if present, else from the body;*)
(*    no client id at all, or an undecodable Basic header: invalid_request; *)
(*  - unknown client: invalid_client;                                       *)
(*  - an OpenID Connect client may use only its registered method:          *)
(*    secret in the body needs client_secret_post, secret in the header     *)
(*    needs client_secret_basic, a public client needs method none;         *)
(*  - a public client is identified without any secret;                     *)
(*  - a confidential client must present its current or a rotated secret.   *)
(* A rejected request neither issues nor invalidates any token.             *)
(***************************************************************************)
EXTENDS Integers, Sequences, FiniteSets, TLC, Json, IOUtils, SequencesExt

Kinds == {"plain", "oidc"}
Methods == {"client_secret_basic", "client_secret_post", "none", "private_key_jwt", "client_secret_jwt"}
(* nosecret: a confidential registration without any stored secret hash (a private_key_jwt-only client, a client
   whose secret was never set): no secret whatsoever -- not even an empty one -- authenticates it *)
Regs == { [kind |-> "plain", method |-> "-", public |-> p, rotated |-> r, nosecret |-> FALSE] : p \in BOOLEAN, r \in {0, 2} }
        \cup { [kind |-> "oidc", method |-> m, public |-> p, rotated |-> r, nosecret |-> FALSE] : m \in Methods, p \in BOOLEAN, r \in {0, 2} }
        \cup { [kind |-> "plain", method |-> "-", public |-> FALSE, rotated |-> 0, nosecret |-> TRUE] }
        \cup { [kind |-> "oidc", method |-> m, public |-> FALSE, rotated |-> 0, nosecret |-> TRUE] : m \in Methods }
(* basic_body_other: the client's credentials in the Basic header AND the client_id of ANOTHER registered client in the
   body: the header identifies the client, the body's client_id must not change who is authenticated *)
(* basic_id_body_secret: the client id (and an empty password) in the Basic header, the secret in the body WITHOUT a client_id:
   the header is what identifies the client, so its (empty) password is the secret that was presented *)
Transports == {"basic", "body", "both", "neither", "basic_undecodable", "basic_id_only", "body_id_only", "basic_body_other", "basic_id_body_secret"}
Secrets == {"current", "rotated", "wrong", "empty", "other_client"}
Endpoints == {"token:client_credentials", "token:password", "token:refresh_token", "revoke", "par", "device_auth"}

(* does the header / the body carry a non-empty secret? *)
SecretSent(sr) == sr # "empty"
HeaderSecret(t, sr) == t \in {"basic", "both", "basic_body_other"} /\ SecretSent(sr)
BodySecret(t, sr) == t \in {"body", "both", "basic_id_body_secret"} /\ SecretSent(sr)
HasBasic(t) == t \in {"basic", "both", "basic_undecodable", "basic_id_only", "basic_body_other", "basic_id_body_secret"}
(* the device authorization endpoint always carries client_id in the body (it compares it) *)
BodyID(t, ep) == t \in {"body", "both", "body_id_only"} \/ ep = "device_auth"
SecretOK(reg, sr) == ~reg.nosecret /\ (sr = "current" \/ (sr = "rotated" /\ reg.rotated > 0))

Auth(reg, t, sr, known, ep) ==
  IF t = "basic_undecodable" THEN "invalid_request"
  ELSE IF ~HasBasic(t) /\ ~BodyID(t, ep) THEN "invalid_request"           \* no client id anywhere
  ELSE IF ~known THEN "invalid_client"
  ELSE IF reg.kind = "oidc" /\ BodyID(t, ep) /\ BodySecret(t, sr) /\ reg.method # "client_secret_post" THEN "invalid_client"
  ELSE IF reg.kind = "oidc" /\ HeaderSecret(t, sr) /\ reg.method # "client_secret_basic" THEN "invalid_client"
  ELSE IF reg.kind = "oidc" /\ reg.method # "none" /\ reg.public THEN "invalid_client"
  ELSE IF reg.public THEN "ok"
  ELSE IF (HasBasic(t) /\ t \notin {"basic_id_only", "basic_id_body_secret"} /\ SecretOK(reg, sr)) \/ (~HasBasic(t) /\ t = "body" /\ SecretOK(reg, sr)) THEN "ok"
  ELSE "invalid_client"

(* what the endpoint answers *)
Outcome(reg, t, sr, known, ep) ==
  LET a == Auth(reg, t, sr, known, ep) IN
  IF a # "ok" THEN (IF ep = "par" THEN "invalid_client" ELSE a)            \* the PAR endpoint reports every failure as invalid_client
  ELSE IF ep = "token:client_credentials" /\ reg.public THEN "invalid_grant"   \* public clients never get client_credentials tokens
  ELSE IF ep = "par" /\ t = "basic_body_other" THEN "invalid_request"          \* the pushed request's client_id is a parameter: it must name the authenticated client
  ELSE "ok"

Rows == { [reg |-> reg, transport |-> t, secret |-> sr, known |-> k, endpoint |-> ep,
           auth |-> Auth(reg, t, sr, k, ep), outcome |-> Outcome(reg, t, sr, k, ep)] :
            reg \in Regs, t \in Transports, sr \in Secrets, k \in BOOLEAN, ep \in Endpoints }
ValidRows == { r \in Rows : (r.transport \in {"neither", "basic_undecodable", "basic_id_only", "body_id_only"} => r.secret = "empty")
                            /\ (r.transport \in {"basic_body_other", "basic_id_body_secret"} => r.endpoint # "device_auth")     \* that endpoint compares the body's client_id itself
                            /\ (r.secret = "rotated" => r.reg.rotated > 0) }

(* relations *)
ASSUME \A r \in ValidRows : (r.auth = "ok" /\ ~r.reg.public) => r.secret \in {"current", "rotated"}      \* a confidential client proves a secret
ASSUME \A r \in ValidRows : (r.endpoint = "token:client_credentials" /\ r.reg.public) => r.outcome # "ok"
ASSUME \A r \in ValidRows : r.secret \in {"wrong", "other_client"} => (r.auth = "ok" => r.reg.public)
ASSUME \A r \in ValidRows : r.reg.nosecret => r.auth # "ok"
ASSUME \A r \in ValidRows : (r.transport = "basic_id_body_secret" /\ ~r.reg.public) => r.auth # "ok"
ASSUME \A r \in ValidRows : r.transport = "basic_body_other" =>
          \E q \in ValidRows : q.transport = "basic" /\ q.reg = r.reg /\ q.secret = r.secret /\ q.known = r.known /\ q.endpoint = r.endpoint
                                 /\ (q.outcome = r.outcome \/ (r.endpoint = "par" /\ q.outcome = "ok" /\ r.outcome = "invalid_request"))
ASSUME PrintT(<<"ROWS", Cardinality(ValidRows)>>)
ASSUME JsonSerialize(IOEnv.VERIF_TABLE_CLIENTAUTH, SetToSeq(ValidRows))

VARIABLE x
Init == x = 0
Next == x' = x
Spec == Init /\ [][Next]_x
=============================================================================
