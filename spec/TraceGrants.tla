----------------------------- MODULE TraceGrants -----------------------------
(***************************************************************************)
(* Trace validation: every line of the ndjson trace recorded by the Go     *)
(* harness from the real ory/fosite code is one step.  The specification   *)
(* is deterministic given the logged operation, so each step computes      *)
(*   r == Apply(st, op)                                                    *)
(* and compares the logged observation (result class, credentials handed   *)
(* out, ID-token flag, advertised lifetime, introspection probe of every   *)
(* token ever issued, projection of the store) with the specification's.   *)
(* The first disagreement of a history is recorded (expected vs observed,  *)
(* with the specification's reason tag) and the rest of that history is    *)
(* skipped, because the two states have diverged; the next "reset" line    *)
(* starts the next history.  The property predicates of Grants.tla are     *)
(* evaluated on every matched step as well.  The report is written as JSON *)
(* when the last line has been consumed.                                   *)
(***************************************************************************)
EXTENDS Grants, Json, IOUtils

TraceFile == IOEnv.VERIF_TRACE
OutFile == IOEnv.VERIF_REPORT
Trace == ndJsonDeserialize(TraceFile)

VARIABLES l, st, skip, report, stats, seen

vars == <<l, st, skip, report, stats, seen>>

NoCfg == [at |-> "hmac", rscopes |-> <<>>, pkce_all |-> FALSE, pkce_pub |-> FALSE, pkce_plain |-> FALSE,
          par_enf |-> FALSE, no_rt_intro |-> FALSE, l_code |-> 1, l_at |-> 1, l_rt |-> 1, l_dev |-> 1, l_par |-> 1,
          l_idt |-> 1, store |-> "mem"]

TInit == /\ l = 1 /\ st = InitState(NoCfg) /\ skip = FALSE /\ report = <<>> /\ seen = {}
         /\ stats = [matched |-> 0, skipped |-> 0, histories |-> 0, diverged |-> 0, soft |-> 0]

ToSet(r) == [id |-> r.id, client |-> r.client, sub |-> r.sub, scopes |-> Range(r.scopes), aud |-> Range(r.aud), exp |-> r.exp]
ObsAT(e) == {ToSet(r) : r \in Range(e.at)}
ObsRT(e) == {ToSet(r) : r \in Range(e.rt)}
ObsProj(e) ==
  [ code_active |-> Range(e.proj.code_active), code_inactive |-> Range(e.proj.code_inactive), at |-> Range(e.proj.at),
    rt_active |-> Range(e.proj.rt_active), rt_inactive |-> Range(e.proj.rt_inactive), pkce |-> Range(e.proj.pkce),
    oidc |-> Range(e.proj.oidc), dev |-> Range(e.proj.dev), par |-> Range(e.proj.par),
    n_at |-> e.proj.n_at, n_rt |-> e.proj.n_rt, n_code |-> e.proj.n_code, n_pkce |-> e.proj.n_pkce,
    n_oidc |-> e.proj.n_oidc, n_par |-> e.proj.n_par, n_jti |-> e.proj.n_jti ]
ModelProj(s) == LET p == Projection(s) IN [p EXCEPT !.oidc = @ \cup {}]

Ids(S) == {r.id : r \in S}

(* the fields on which specification and implementation disagree at this step *)
Diff(e, r) ==
  LET o == e.obs
      pa == ProbeAT(r.st)
      pr == ProbeRT(r.st)
      oa == ObsAT(e)
      or == ObsRT(e)
      mp == Projection(r.st)
      op == ObsProj(e)
  IN  (IF o.res # r.out.res THEN {"res"} ELSE {})
      \cup (IF o.new.code # r.out.code \/ o.new.at # r.out.at \/ o.new.rt # r.out.rt \/ o.new.dev # r.out.dev \/ o.new.par # r.out.par THEN {"issued"} ELSE {})
      \cup (IF o.idt # r.out.idt THEN {"idt"} ELSE {})
      \cup (IF o.exp_in # r.out.expin THEN {"expin"} ELSE {})
      \cup (IF e.now # r.st.now THEN {"now"} ELSE {})
      \cup (IF Ids(oa) # Ids(pa) \/ Ids(or) # Ids(pr) THEN {"probe_active"} ELSE {})
      \cup (IF Ids(oa) = Ids(pa) /\ Ids(or) = Ids(pr) /\ (oa # pa \/ or # pr) THEN {"probe_payload"} ELSE {})
      \cup (IF op # mp THEN {"proj"} ELSE {})
      \cup (IF r.out.note # "" /\ o.note # r.out.note THEN {"note"} ELSE {})

WhyDead(s, kind, id) ==
  IF kind = "at" THEN (IF ~Has(s.S.at, id) THEN "never_issued"
                       ELSE IF ~s.S.at[id].present
                            THEN (IF s.S.at[id].via = "authz" /\ s.S.at[id].why \in {"rotated", "replay", "reuse"}
                                  THEN s.S.at[id].why \o "_authz" ELSE s.S.at[id].why)
                            ELSE "expired")
  ELSE (IF ~Has(s.S.rt, id) THEN "never_issued" ELSE IF ~s.S.rt[id].present \/ ~s.S.rt[id].active THEN s.S.rt[id].why
        ELSE IF s.cfg.no_rt_intro /\ RTActive(s, id) THEN "rt_introspection_disabled" ELSE "expired")

Mismatch(e, r, d) ==
  LET pa == ProbeAT(r.st)
      pr == ProbeRT(r.st)
      oa == ObsAT(e)
      or == ObsRT(e)
  IN [ h |-> e.h, line |-> l, op |-> e.op, fields |-> d,
       exp_res |-> r.out.res, exp_reason |-> r.out.reason, obs_res |-> e.obs.res,
       exp_issued |-> [code |-> r.out.code, at |-> r.out.at, rt |-> r.out.rt, dev |-> r.out.dev, par |-> r.out.par, idt |-> r.out.idt, expin |-> r.out.expin],
       obs_issued |-> [code |-> e.obs.new.code, at |-> e.obs.new.at, rt |-> e.obs.new.rt, dev |-> e.obs.new.dev, par |-> e.obs.new.par, idt |-> e.obs.idt, expin |-> e.obs.exp_in],
       extra_active_at |-> {[id |-> x, why |-> WhyDead(r.st, "at", x)] : x \in Ids(oa) \ Ids(pa)},
       extra_active_rt |-> {[id |-> x, why |-> WhyDead(r.st, "rt", x)] : x \in Ids(or) \ Ids(pr)},
       missing_active_at |-> Ids(pa) \ Ids(oa), missing_active_rt |-> Ids(pr) \ Ids(or),
       missing_other_at |-> {x \in Ids(pa) \ Ids(oa) : r.st.S.at[x].rid \notin Touched(st, e.op)},
       missing_other_rt |-> {x \in Ids(pr) \ Ids(or) : r.st.S.rt[x].rid \notin Touched(st, e.op)},
       payload_exp |-> (pa \cup pr) \ (oa \cup or), payload_obs |-> (oa \cup or) \ (pa \cup pr),
       exp_proj |-> Projection(r.st), obs_proj |-> ObsProj(e), proj_differs |-> Projection(r.st) # ObsProj(e),
       exp_note |-> r.out.note, obs_note |-> e.obs.note, prop |-> "" ]

PropFail(e, r) ==     \* property predicates evaluated on the matched step
  FailedState(r.st) \cup FailedStep(st, e.op, r)
Hard == {"res", "issued", "probe_active", "now"}
Stop == {"res", "issued", "now"}          \* after these the two histories have really parted: the rest is skipped
ProbeSig(e, r) ==
  LET pa == ProbeAT(r.st)  pr == ProbeRT(r.st)  oa == ObsAT(e)  or == ObsRT(e) IN
  "probe:" \o ToString(<<Ids(oa) \ Ids(pa), Ids(or) \ Ids(pr), Ids(pa) \ Ids(oa), Ids(pr) \ Ids(or)>>)

TStep ==
  /\ l <= Len(Trace)
  /\ Trace[l].ev \in {"reset", "op"}
  /\ LET e == Trace[l] IN
     IF e.ev = "reset"
     THEN /\ st' = InitState(e.cfg) /\ skip' = FALSE /\ report' = report /\ seen' = {}
          /\ stats' = [stats EXCEPT !.histories = @ + 1]
     ELSE IF skip
     THEN /\ UNCHANGED <<st, skip, report, seen>> /\ stats' = [stats EXCEPT !.skipped = @ + 1]
     ELSE LET r == Apply(st, e.op)
              d0 == Diff(e, r)
              \* a soft disagreement persists in later probes of the same history: report it once
              d == IF d0 \cap Hard = {} THEN d0 \ seen ELSE d0
          IN IF d = {}
             THEN LET pf == PropFail(e, r) IN
                  /\ st' = r.st /\ skip' = FALSE /\ seen' = seen
                  /\ report' = IF pf = {} THEN report
                               ELSE Append(report, [Mismatch(e, r, pf) EXCEPT !.prop = "property"])
                  /\ stats' = [stats EXCEPT !.matched = @ + 1]
             ELSE IF d \cap Hard = {}
             THEN \* soft disagreement (projection, ID-token flag, advertised lifetime, payload):
                  \* recorded, and the history continues from the specification's state
                  /\ st' = r.st /\ skip' = FALSE /\ seen' = seen \cup d
                  /\ report' = Append(report, [Mismatch(e, r, d) EXCEPT !.prop = "soft"])
                  /\ stats' = [stats EXCEPT !.soft = @ + 1]
             ELSE IF d \cap Stop = {}
             THEN \* the request was answered as specified and issued what was specified, but the sets of active tokens differ
                  \* (a token the specification has dead is still honoured, or the reverse).  Credential ids stay in step, so the
                  \* history continues from the specification's state: a LATER consequence of another kind (the tokens a replayed
                  \* code must kill, say) is not hidden behind this one.  Each distinct difference of the sets is reported once.
                  LET sig == ProbeSig(e, r)
                      new == ((d \ Hard) \ seen) \cup (IF sig \notin seen THEN {"probe_active"} ELSE {})
                  IN /\ st' = r.st /\ skip' = FALSE /\ seen' = seen \cup (d \ Hard) \cup {sig}
                     /\ report' = IF new = {} THEN report ELSE Append(report, Mismatch(e, r, new))
                     /\ stats' = IF "probe_active" \in new THEN [stats EXCEPT !.diverged = @ + 1] ELSE [stats EXCEPT !.soft = @ + 1]
             ELSE /\ st' = st /\ skip' = TRUE /\ seen' = seen
                  /\ report' = Append(report, Mismatch(e, r, d))
                  /\ stats' = [stats EXCEPT !.diverged = @ + 1]
  /\ l' = l + 1

TFinish ==
  /\ l = Len(Trace) + 1
  /\ JsonSerialize(OutFile, [stats |-> stats, lines |-> Len(Trace), mismatches |-> report])
  /\ l' = l + 1
  /\ UNCHANGED <<st, skip, report, stats, seen>>

TNext == TStep \/ TFinish
TSpec == TInit /\ [][TNext]_vars

Consumed == TLCGet("stats").diameter >= Len(Trace) + 2
=============================================================================
