----------------------------- MODULE TblAssertion -----------------------------
(***************************************************************************)
(* C15: which JWT assertions are accepted.                                  *)
(*  (CA) private_key_jwt client assertions: registration method / algorithm *)
(*       x header algorithm x kid x signing key x iss x sub x aud x exp x   *)
(*       jti;                                                               *)
(*  (BG) JWT-bearer authorization grants: signing key x kid x (iss, sub) x  *)
(*       aud x exp x nbf x iat x jti x optional-claim configuration x       *)
(*       requested scope.                                                   *)
(* Every field has one "right" value; the table contains every assertion    *)
(* in which at most MaxDev fields deviate from the right one.  An assertion *)
(* is accepted iff no field deviates in a way the rules forbid.  An         *)
(* accepted assertion presented a second time must be refused (jti).        *)
(***************************************************************************)
EXTENDS Integers, Sequences, FiniteSets, TLC, Json, IOUtils, SequencesExt

CONSTANT MaxDev

(* ---- client assertions ----------------------------------------------------- *)
CAVals == [ method : {"private_key_jwt", "client_secret_basic", "client_secret_post", "none", "client_secret_jwt", "plain_client"},   \* plain_client: not an OpenID Connect registration at all
            regalg : {"RS256", "ES256", "PS256"},
            alg    : {"registered", "other_asymmetric", "same_family_other", "HS256", "none"},    \* same_family_other: RS256 <-> PS256 / RS512, ES256 <-> ES384: same key, another algorithm
            kid    : {"right", "absent", "unknown"},
            key    : {"registered", "other_client", "unregistered"},
            \* where the registered keys live: in the registration, behind jwks_uri, or behind a jwks_uri whose cached copy is stale
            \* (the key was rotated in: a forced refresh finds it)
            keysrc : {"inline", "uri", "uri_stale"},
            iss    : {"client", "other", "absent"},
            sub    : {"client", "other", "absent"},
            \* child_path / with_query / other_case: URLs that merely start with, extend or re-spell the token URL -- "contains the token URL" is equality of one element
            aud    : {"token_url", "other", "list_with_token_url", "list_without", "absent", "child_path", "with_query", "list_child_path", "empty_list"},   \* empty_list: an aud claim that is present and names nobody
            \* *_frac: NumericDate values with a fractional part (RFC 7519 allows them); they expire when their instant has passed like any other
            \* just_past: one second ago -- there is no grace period in the statement
            exp    : {"future", "past", "absent", "string", "future_frac", "past_frac", "just_past"},
            jti    : {"fresh", "absent"},
            \* how the assertion is put into the form
            form   : {"normal", "empty_assertion", "unknown_type", "with_other_client_id"} ]
CAGood == [method |-> "private_key_jwt", regalg |-> "RS256", alg |-> "registered", kid |-> "right", key |-> "registered", keysrc |-> "inline",
           iss |-> "client", sub |-> "client", aud |-> "token_url", exp |-> "future", jti |-> "fresh", form |-> "normal"]
CAFields == DOMAIN CAGood
CADev(r) == Cardinality({f \in CAFields : r[f] # CAGood[f]})
CAAccept(r) ==
  /\ r.method = "private_key_jwt" /\ r.alg = "registered" /\ r.key = "registered" /\ r.kid \in {"right", "absent"}
  /\ r.iss = "client" /\ r.sub = "client" /\ r.aud \in {"token_url", "list_with_token_url"} /\ r.exp \in {"future", "future_frac"} /\ r.jti = "fresh"
  /\ r.form = "normal"
  \* with a stale cached key set an assertion WITHOUT kid is checked against whatever key the stale set offers (the refresh is
  \* triggered by a key that cannot be found, and without kid any key of the right type is "found"): refused, which the
  \* statement (an "only if") permits
  \* (the stale set holds an RSA key: an ES256 client's key can never be "found" in it, so the refresh always happens)
  /\ ((r.keysrc = "uri_stale" /\ r.regalg \in {"RS256", "PS256"}) => r.kid = "right")
CARows == { [tbl |-> "CA", f |-> r, accept |-> CAAccept(r)] :
              r \in {x \in CAVals : CADev(x) <= MaxDev /\ ~(x.alg = "same_family_other" /\ x.regalg = "ES256")} }    \* a P-256 key has no second algorithm

(* ---- JWT-bearer grants ------------------------------------------------------- *)
BGVals == [ key    : {"registered", "other_issuer", "unregistered"},
            kid    : {"right", "absent", "unknown"},
            who    : {"registered", "other_subject", "no_iss", "no_sub"},
            aud    : {"token_url", "other", "list_with_token_url", "absent", "child_path", "with_query", "list_child_path", "empty_list"},
            exp    : {"future", "past", "beyond_max", "absent", "future_frac", "past_frac", "just_past"},
            nbf    : {"absent", "past", "future", "just_future"},
            iat    : {"present", "absent"},
            iatopt : BOOLEAN,
            jti    : {"fresh", "absent"},
            jtiopt : BOOLEAN,
            \* key_scopeless*: the signing key is registered without any scope: it covers no requested scope at all
            scope  : {"covered", "not_covered", "none", "key_scopeless", "key_scopeless_none"},
            client : {"none", "authenticated"},
            form   : {"normal", "empty_assertion", "garbage_assertion"} ]
BGGood == [key |-> "registered", kid |-> "right", who |-> "registered", aud |-> "token_url", exp |-> "future", nbf |-> "absent",
           iat |-> "present", iatopt |-> FALSE, jti |-> "fresh", jtiopt |-> FALSE, scope |-> "covered", client |-> "none", form |-> "normal"]
BGFields == DOMAIN BGGood
BGDev(r) == Cardinality({f \in BGFields : r[f] # BGGood[f]})
BGAccept(r) ==
  /\ r.key = "registered" /\ r.kid \in {"right", "absent"} /\ r.who = "registered"
  /\ r.aud \in {"token_url", "list_with_token_url"}
  /\ r.exp \in {"future", "future_frac"} /\ r.nbf \in {"absent", "past"}
  /\ (r.iat = "present" \/ r.iatopt)
  /\ (r.jti = "fresh" \/ r.jtiopt)
  /\ r.scope \in {"covered", "none", "key_scopeless_none"}
  /\ r.form = "normal"
BGRows == { [tbl |-> "BG", f |-> r, accept |-> BGAccept(r)] : r \in {x \in BGVals : BGDev(x) <= MaxDev} }

ASSUME CAAccept(CAGood) /\ BGAccept(BGGood)
ASSUME \A r \in CARows : r.accept => r.f.key = "registered" /\ r.f.jti = "fresh"
ASSUME PrintT(<<"ROWS", Cardinality(CARows), Cardinality(BGRows)>>)
ASSUME JsonSerialize(IOEnv.VERIF_TABLE_ASSERT, SetToSeq(CARows) \o SetToSeq(BGRows))

VARIABLE x
Init == x = 0
Next == x' = x
Spec == Init /\ [][Next]_x
=============================================================================
