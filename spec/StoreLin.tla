------------------------------ MODULE StoreLin ------------------------------
(***************************************************************************)
(* C19: "every individual store operation takes effect atomically".         *)
(*                                                                         *)
(* Trace validation of FREE-RUNNING concurrent calls of the reference store. *)
(* The harness logs, for every call, a call event and a return event        *)
(* ordered by one atomic counter.  A call is a sequence of critical         *)
(* sections -- one for almost every method; RevokeAccessToken has two       *)
(* (remove the indexed token, remove the remaining tokens of the request    *)
(* id) and RotateRefreshToken is RevokeRefreshToken followed by             *)
(* RevokeAccessToken, as in the reference store.  The specification lets    *)
(* each section take effect at one instant between the call and the return  *)
(* (action Lin), in program order, using the operators of Store.tla, and    *)
(* requires the logged result to be the one computed there.  TLC searches   *)
(* for such a linearization; the history is accepted iff one exists.        *)
(* A store method whose test-and-set is split over two lock acquisitions    *)
(* produces histories (two successful SetClientAssertionJWT of one jti) for *)
(* which none exists.                                                       *)
(***************************************************************************)
EXTENDS Store, Json, IOUtils, SequencesExt

Trace == ndJsonDeserialize(IOEnv.VERIF_TRACE)
Procs == 0..3

VARIABLES l, S, pend, out

lvars == <<l, S, pend, out>>

Sec(s, k, r) == [s |-> s, k |-> k, r |-> r]
Sections(e) ==
  CASE e.m = "RotateRT" -> <<Sec("RevokeRT", e.k, e.r), Sec("RevokeAT_idx", e.k, e.r), Sec("RevokeAT_rest", e.k, e.r)>>
    [] e.m = "RevokeAT" -> <<Sec("RevokeAT_idx", e.k, e.r), Sec("RevokeAT_rest", e.k, e.r)>>
    [] e.m = "MarkJWT"  -> <<Sec("SetJTI", e.k, e.r)>>
    [] e.m = "IsJWTUsed" -> <<Sec("JTIValid", e.k, e.r)>>
    [] OTHER -> <<Sec(e.m, e.k, e.r)>>

ATRow0(r) == [rid |-> r, present |-> TRUE, why |-> ""]
RTRow0(r) == [rid |-> r, active |-> TRUE, present |-> TRUE, why |-> ""]
Present(f, k) == Has(f, k) /\ f[k].present

(* one critical section: new store, result ("" = no verdict of its own), abort the remaining sections? *)
R3(s, res, abort) == [S |-> s, res |-> res, abort |-> abort]
Section(St, c) ==
  LET k == c.k  r == c.r IN
  CASE c.s = "SetJTI" -> IF JTIKnown(St, k) THEN R3(St, "known", TRUE) ELSE R3(MarkJTI(St, k), "ok", FALSE)
    [] c.s = "JTIValid" -> R3(St, IF JTIKnown(St, k) THEN "known" ELSE "ok", FALSE)
    [] c.s = "CreateCode" -> R3(CreateAuthorizeCodeSession(St, k, [active |-> TRUE]), "ok", FALSE)
    [] c.s = "GetCode" -> R3(St, GetAuthorizeCodeSession(St, k), FALSE)
    [] c.s = "InvalidateCode" -> IF Has(St.code, k) THEN R3(InvalidateAuthorizeCodeSession(St, k), "ok", FALSE) ELSE R3(St, "not_found", TRUE)
    [] c.s = "CreateAT" -> R3(CreateAccessTokenSession(St, k, ATRow0(r)), "ok", FALSE)
    [] c.s = "GetAT" -> R3(St, IF Present(St.at, k) THEN "ok" ELSE "not_found", FALSE)
    [] c.s = "DeleteAT" -> R3(DeleteAccessTokenSession(St, k, "deleted"), "ok", FALSE)
    [] c.s = "RevokeAT_idx" -> R3(IF Has(St.atIdx, r) THEN DeleteAccessTokenSession(St, St.atIdx[r], "revoked") ELSE St, "ok", FALSE)
    [] c.s = "RevokeAT_rest" -> R3(RevokeAccessToken(St, r, "revoked"), "ok", FALSE)
    [] c.s = "CreateRT" -> R3(CreateRefreshTokenSession(St, k, RTRow0(r)), "ok", FALSE)
    [] c.s = "GetRT" -> R3(St, GetRefreshTokenSession(St, k), FALSE)
    [] c.s = "DeleteRT" -> R3(DeleteRefreshTokenSession(St, k, "deleted"), "ok", FALSE)
    [] c.s = "RevokeRT" -> IF RevokeRefreshTokenErr(St, r) = "not_found" THEN R3(St, "not_found", TRUE)
                           ELSE R3(RevokeRefreshToken(St, r, "revoked"), "ok", FALSE)
    [] c.s = "CreatePAR" -> R3(CreatePARSession(St, k, [present |-> TRUE]), "ok", FALSE)
    [] c.s = "GetPAR" -> R3(St, GetPARSession(St, k), FALSE)
    [] c.s = "DeletePAR" -> R3(DeletePARSession(St, k), "ok", FALSE)
    [] c.s = "CreatePKCE" -> R3(CreatePKCERequestSession(St, k, "S256"), "ok", FALSE)
    [] c.s = "GetPKCE" -> R3(St, IF HasPKCE(St, k) THEN "ok" ELSE "not_found", FALSE)
    [] c.s = "DeletePKCE" -> R3(DeletePKCERequestSession(St, k), "ok", FALSE)
    [] c.s = "CreateOIDC" -> R3(CreateOpenIDConnectSession(St, k), "ok", FALSE)
    [] c.s = "GetOIDC" -> R3(St, IF k \in St.oidc THEN "ok" ELSE "not_found", FALSE)
    [] c.s = "DeleteOIDC" -> R3(DeleteOpenIDConnectSession(St, k), "ok", FALSE)
    [] c.s = "CreateDev" -> R3(CreateDeviceAuthSession(St, k, [present |-> TRUE, inval |-> FALSE]), "ok", FALSE)
    [] c.s = "GetDev" -> R3(St, IF Has(St.dev, k) /\ St.dev[k].present THEN "ok" ELSE "not_found", FALSE)
    [] c.s = "InvalidateDev" -> R3(IF Has(St.dev, k) THEN InvalidateDeviceCodeSession(St, k) ELSE St, "ok", FALSE)

LInit == l = 1 /\ S = EmptyStore /\ pend = [p \in Procs |-> <<>>] /\ out = [p \in Procs |-> "ok"] /\ TLCSet(1, 1)

Reset ==
  /\ l <= Len(Trace) /\ Trace[l].ev = "reset"
  /\ S' = EmptyStore /\ pend' = [p \in Procs |-> <<>>] /\ out' = [p \in Procs |-> "ok"] /\ l' = l + 1

Call ==
  /\ l <= Len(Trace) /\ Trace[l].ev = "call"
  /\ LET e == Trace[l] IN
     /\ pend[e.p] = <<>>
     /\ pend' = [pend EXCEPT ![e.p] = Sections(e)] /\ out' = [out EXCEPT ![e.p] = "ok"]
  /\ UNCHANGED S /\ l' = l + 1

(* a critical section of a pending call takes effect *)
Lin(p) ==
  /\ pend[p] # <<>>
  /\ LET r == Section(S, Head(pend[p])) IN
     /\ S' = r.S
     /\ out' = [out EXCEPT ![p] = IF r.res # "ok" THEN r.res ELSE @]
     /\ pend' = [pend EXCEPT ![p] = IF r.abort THEN <<>> ELSE Tail(@)]
  /\ UNCHANGED l

Ret ==
  /\ l <= Len(Trace) /\ Trace[l].ev = "ret"
  /\ LET e == Trace[l] IN pend[e.p] = <<>> /\ out[e.p] = e.res
  /\ UNCHANGED <<S, pend, out>> /\ l' = l + 1

LNext == Reset \/ Call \/ Ret \/ \E p \in Procs : Lin(p)
LSpec == LInit /\ [][LNext]_lvars

(* acceptance: the furthest trace position some behaviour reached (register 1; -workers 1) *)
HighWater == TLCSet(1, IF l > TLCGet(1) THEN l ELSE TLCGet(1))
Report == JsonSerialize(IOEnv.VERIF_REPORT, [reached |-> TLCGet(1), lines |-> Len(Trace),
                                              stuck |-> IF TLCGet(1) <= Len(Trace) THEN Trace[TLCGet(1)] ELSE [ev |-> "end"]])
=============================================================================
