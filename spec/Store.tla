------------------------------- MODULE Store -------------------------------
(***************************************************************************)
(* The reference store of ory/fosite (storage/memory.go) as pure           *)
(* state-transformers over one record S of tables.  One operator per       *)
(* storage-interface method; Grants.tla composes them in the order the     *)
(* handlers call them, Steps.tla executes them one at a time.              *)
(*                                                                         *)
(* Credentials are abstract identifiers 1,2,3,... allocated per kind in    *)
(* issuance order; the conformance harness numbers the real strings it     *)
(* receives in the same order.  Rows are never removed from the model's    *)
(* functions: a deleted row has present = FALSE, so ghost information      *)
(* (why a token died, which request id it belongs to) survives deletion.   *)
(***************************************************************************)
EXTENDS Integers, Sequences, FiniteSets, TLC

Range(s) == {s[i] : i \in DOMAIN s}
Put(f, k, v) == [x \in (DOMAIN f) \cup {k} |-> IF x = k THEN v ELSE f[x]]
Has(f, k) == k \in DOMAIN f
Count(f) == Cardinality(DOMAIN f)

EmptyStore ==
  [ code  |-> <<>>,   \* id -> [client, rid, req, scopes, aud, redir, exp, active, openid]
    pkce  |-> <<>>,   \* code id -> [method, present]
    oidc  |-> {},     \* code ids that have an OpenID Connect session row
    at    |-> <<>>,   \* id -> [rid, client, scopes, aud, sub, exp, via, present, why]
    rt    |-> <<>>,   \* id -> [rid, client, req, scopes, aud, sub, exp, active, present, why]
    atIdx |-> <<>>,   \* request id -> latest access-token id   (AccessTokenRequestIDs)
    rtIdx |-> <<>>,   \* request id -> latest refresh-token id  (RefreshTokenRequestIDs)
    dev   |-> <<>>,   \* id -> [client, rid, req, scopes, aud, exp, ustate, present, inval]
    doidc |-> {},     \* device ids that have an OpenID Connect session row
    par   |-> <<>>,   \* id -> [client, exp, present, rtype, req, aud, redirSent]
    jti   |-> {} ]    \* identifiers of JWT assertions already accepted (BlacklistedJTIs)

(* ---- authorize codes ------------------------------------------------- *)
CreateAuthorizeCodeSession(S, k, row) == [S EXCEPT !.code = Put(@, k, row)]
GetAuthorizeCodeSession(S, k) ==
  IF ~Has(S.code, k) THEN "not_found"
  ELSE IF ~S.code[k].active THEN "invalidated" ELSE "ok"
InvalidateAuthorizeCodeSession(S, k) == [S EXCEPT !.code[k].active = FALSE]

(* ---- PKCE / OpenID Connect sessions ---------------------------------- *)
CreatePKCERequestSession(S, k, method) == [S EXCEPT !.pkce = Put(@, k, [method |-> method, present |-> TRUE])]
HasPKCE(S, k) == Has(S.pkce, k) /\ S.pkce[k].present
DeletePKCERequestSession(S, k) == IF Has(S.pkce, k) THEN [S EXCEPT !.pkce[k].present = FALSE] ELSE S
CreateOpenIDConnectSession(S, k) == [S EXCEPT !.oidc = @ \cup {k}]
DeleteOpenIDConnectSession(S, k) == [S EXCEPT !.oidc = @ \ {k}]

(* ---- access tokens ---------------------------------------------------- *)
CreateAccessTokenSession(S, i, row) ==
  [S EXCEPT !.at = Put(@, i, row), !.atIdx = Put(@, row.rid, i)]
DeleteAccessTokenSession(S, i, why) ==
  IF Has(S.at, i) /\ S.at[i].present
  THEN [S EXCEPT !.at[i].present = FALSE, !.at[i].why = why] ELSE S

(* RevokeAccessToken(requestID): every access token stored under the request id is
   removed.  (The pinned reference store removed only the one its single-signature
   index pointed at; see DESIGN.md, finding F4 -- the index is still modelled because
   RotateRefreshToken and the replay branches go through it.) *)
RevokeAccessToken(S, rid, why) ==
  [S EXCEPT !.at = [i \in DOMAIN S.at |->
      IF S.at[i].rid = rid /\ S.at[i].present
      THEN [S.at[i] EXCEPT !.present = FALSE, !.why = why] ELSE S.at[i]]]

(* ---- refresh tokens --------------------------------------------------- *)
CreateRefreshTokenSession(S, j, row) ==
  [S EXCEPT !.rt = Put(@, j, row), !.rtIdx = Put(@, row.rid, j)]
GetRefreshTokenSession(S, j) ==
  IF ~Has(S.rt, j) \/ ~S.rt[j].present THEN "not_found"
  ELSE IF ~S.rt[j].active THEN "inactive" ELSE "ok"
DeleteRefreshTokenSession(S, j, why) ==
  IF Has(S.rt, j) /\ S.rt[j].present
  THEN [S EXCEPT !.rt[j].present = FALSE, !.rt[j].why = IF @ = "" THEN why ELSE @] ELSE S
(* RevokeRefreshToken(requestID) marks the latest refresh token of the request id
   inactive; ErrNotFound when the index points at a deleted row. *)
RevokeRefreshTokenErr(S, rid) ==
  IF Has(S.rtIdx, rid) /\ ~S.rt[S.rtIdx[rid]].present THEN "not_found" ELSE "ok"
RevokeRefreshToken(S, rid, why) ==
  IF Has(S.rtIdx, rid) /\ S.rt[S.rtIdx[rid]].present
  THEN LET j == S.rtIdx[rid] IN
       [S EXCEPT !.rt[j].active = FALSE, !.rt[j].why = IF @ = "" THEN why ELSE @]
  ELSE S
RotateRefreshToken(S, rid) == RevokeAccessToken(RevokeRefreshToken(S, rid, "rotated"), rid, "rotated")

(* ---- device sessions --------------------------------------------------- *)
CreateDeviceAuthSession(S, d, row) == [S EXCEPT !.dev = Put(@, d, row)]
(* the reference store deletes the row; a store following the documented contract
   keeps it and answers ErrInvalidatedDeviceCode *)
InvalidateDeviceCodeSession(S, d) == [S EXCEPT !.dev[d].present = FALSE, !.dev[d].inval = TRUE]
GetDeviceCodeSession(S, d, contract) ==
  IF ~Has(S.dev, d) THEN "not_found"
  ELSE IF S.dev[d].inval THEN (IF contract THEN "invalidated" ELSE "not_found")
  ELSE "ok"

(* ---- pushed authorization requests ------------------------------------- *)
CreatePARSession(S, u, row) == [S EXCEPT !.par = Put(@, u, row)]
GetPARSession(S, u) == IF Has(S.par, u) /\ S.par[u].present THEN "ok" ELSE "not_found"
DeletePARSession(S, u) == IF Has(S.par, u) THEN [S EXCEPT !.par[u].present = FALSE] ELSE S

(* ---- JWT assertion identifiers (ClientAssertionJWTValid / SetClientAssertionJWT, IsJWTUsed / MarkJWTUsedForTime) *)
JTIKnown(S, j) == j \in S.jti
MarkJTI(S, j) == [S EXCEPT !.jti = @ \cup {j}]     \* atomic mark-if-absent: the caller must have checked JTIKnown in the same step
=============================================================================
