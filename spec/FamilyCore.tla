----------------------------- MODULE FamilyCore -----------------------------
(***************************************************************************)
(* The refresh-token family core of Store.tla / Grants.tla, reduced to     *)
(* what C01/C04/C08 say about activity, typed for Apalache.                 *)
(*                                                                         *)
(* A *slot* i is one generation of a grant: the refresh token i and the    *)
(* access token issued alongside it.  TLC checks (MCGrants, invariant      *)
(* FamilyCoreView) that every reachable state of the bounded Grants model   *)
(* projects to a state satisfying IndInv; Apalache shows here that IndInv   *)
(* is inductive, i.e. holds after histories of ANY length over N slots:     *)
(*    apalache-mc check --cinit=CInit --init=IndInit --inv=IndInv --length=1 FamilyCore.tla *)
(*    apalache-mc check --cinit=CInit --init=Init --inv=IndInv --length=0 FamilyCore.tla *)
(***************************************************************************)
EXTENDS Integers, FiniteSets

CONSTANTS
  \* @type: Int;
  N,      \* refresh-token slots
  \* @type: Int;
  M       \* grant (request id) numbers

Slots == 1..N
States == {"free", "active", "used", "dead"}

VARIABLES
  \* @type: Int -> Str;
  rt,       \* state of refresh token i: never issued / honoured / rotated away / revoked or killed
  \* @type: Int -> Int;
  fam,      \* the grant (request id) slot i belongs to, 0 while free
  \* @type: Int -> Bool;
  at,       \* the access token issued alongside refresh token i is still stored
  \* @type: Set(Int);
  killed    \* grants on which reuse was detected or that were revoked

vars == <<rt, fam, at, killed>>

CInit == N = 6 /\ M = 8

Init ==
  /\ rt = [i \in Slots |-> "free"]
  /\ fam = [i \in Slots |-> 0]
  /\ at = [i \in Slots |-> FALSE]
  /\ killed = {}

Family(f) == {k \in Slots : fam[k] = f}

(* a new grant: code redemption, password grant, device poll *)
Grant(i, f) ==
  /\ rt[i] = "free" /\ f \in 1..M /\ Family(f) = {} /\ f \notin killed
  /\ rt' = [rt EXCEPT ![i] = "active"]
  /\ fam' = [fam EXCEPT ![i] = f]
  /\ at' = [at EXCEPT ![i] = TRUE]
  /\ UNCHANGED killed

(* RotateRefreshToken + CreateAccessTokenSession + CreateRefreshTokenSession *)
Refresh(i, j) ==
  /\ rt[i] = "active" /\ rt[j] = "free"
  /\ rt' = [rt EXCEPT ![i] = "used", ![j] = "active"]
  /\ fam' = [fam EXCEPT ![j] = fam[i]]
  /\ at' = [k \in Slots |-> IF k = j THEN TRUE ELSE IF fam[k] = fam[i] THEN FALSE ELSE at[k]]
  /\ UNCHANGED killed

(* the whole grant dies: reuse of a rotated token, replay of the code, revocation of either token *)
Kill(f) ==
  /\ rt' = [k \in Slots |-> IF fam[k] = f /\ rt[k] = "active" THEN "dead" ELSE rt[k]]
  /\ at' = [k \in Slots |-> IF fam[k] = f THEN FALSE ELSE at[k]]
  /\ killed' = killed \union {f}
  /\ UNCHANGED fam

Reuse(i) == rt[i] \in {"used", "dead"} /\ Kill(fam[i])
Revoke(i) == rt[i] = "active" /\ Kill(fam[i])
(* the access token alone disappears (expiry is not storage; this is DeleteAccessTokenSession) *)
DropAT(i) == at[i] /\ at' = [at EXCEPT ![i] = FALSE] /\ UNCHANGED <<rt, fam, killed>>

Next ==
  \/ \E i \in Slots, f \in 1..M : Grant(i, f)
  \/ \E i \in Slots, j \in Slots : Refresh(i, j)
  \/ \E i \in Slots : Reuse(i) \/ Revoke(i) \/ DropAT(i)

Spec == Init /\ [][Next]_vars

(* ---- the properties -------------------------------------------------------- *)
TypeOK ==
  /\ rt \in [Slots -> States]
  /\ fam \in [Slots -> 0..M]
  /\ at \in [Slots -> BOOLEAN]
  /\ killed \in SUBSET (1..M)

(* C04: at most one honoured refresh token per grant *)
OneActive == \A i \in Slots, j \in Slots : (rt[i] = "active" /\ rt[j] = "active" /\ fam[i] = fam[j]) => i = j
(* C04: the access token of a generation is gone once its refresh token was rotated away or killed *)
ATOnlyOfActive == \A i \in Slots : at[i] => rt[i] = "active"
(* C01/C04/C08: a killed grant stays dead *)
KilledStaysDead == \A i \in Slots : (fam[i] \in killed /\ fam[i] # 0) => (rt[i] # "active" /\ ~at[i])
FreeIsBlank == \A i \in Slots : (rt[i] = "free") <=> (fam[i] = 0)
NoZeroKilled == 0 \notin killed

IndInv == TypeOK /\ OneActive /\ ATOnlyOfActive /\ KilledStaysDead /\ FreeIsBlank /\ NoZeroKilled
IndInit == IndInv
=============================================================================
