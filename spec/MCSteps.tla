------------------------------ MODULE MCSteps ------------------------------
(***************************************************************************)
(* Bounded model of Steps.tla.  A scenario is                               *)
(*    pre   : operations executed sequentially (set-up),                    *)
(*    procs : requests that are in flight at the same time,                 *)
(*    post  : operations executed sequentially afterwards (retry / replay). *)
(* TLC explores every interleaving of the storage steps of the in-flight    *)
(* requests (C19, C15) and every placement of up to MaxFaults injected      *)
(* storage errors (C18), checks the invariants below in every state, and    *)
(* (Emit) prints every complete schedule as JSON; the Go harness forces     *)
(* each schedule on real goroutines through the storage gate.               *)
(***************************************************************************)
EXTENDS Steps, Json, OpsLib

CONSTANTS Scenarios,   \* set of scenario records
          MaxFaults,   \* number of injected storage errors per behaviour
          Kinds,       \* fault kinds that may be injected
          Emit

VARIABLES G, procs, hist, nf, sc, S0, post, stepok, faultpc

vars == <<G, procs, hist, nf, sc, S0, post, stepok, faultpc>>

BaseCfg == [at |-> "hmac", rscopes |-> <<"offline">>, pkce_all |-> FALSE, pkce_pub |-> FALSE, pkce_plain |-> FALSE,
            par_enf |-> FALSE, no_rt_intro |-> FALSE, l_code |-> 2, l_at |-> 3, l_rt |-> 6, l_dev |-> 2, l_par |-> 2,
            l_idt |-> 3, store |-> "mem", sess_noexp |-> FALSE]
CfgStore(s) == [BaseCfg EXCEPT !.store = s]
Full == <<"openid", "offline", "a">>

RECURSIVE ApplyAll(_, _, _)
ApplyAll(st, ops, i) == IF i > Len(ops) THEN st ELSE ApplyAll(Apply(st, ops[i]).st, ops, i + 1)

(* ---- set-ups (ids are determined by the order of issuance) -------------------- *)
AuthzCode == Authz("A", "code", Full, Full, <<>>, "sent", "none")             \* code 1
AuthzPkce == Authz("A", "code", Full, Full, <<>>, "sent", "S256")             \* code 1 + PKCE session
AuthzHyb == Authz("A", "code_token", Full, Full, <<>>, "sent", "none")        \* code 1, at 1
RedeemOK(k) == Redeem("A", "ok", k, "same", "none", <<>>, <<>>)
RedeemV(k, v) == Redeem("A", "ok", k, "same", v, <<>>, <<>>)
RefreshOK(j) == Refresh("A", "ok", j, <<>>, <<>>)
RevokeRT(j) == Revoke("A", "ok", "rt", j, "rt")
RevokeAT(i) == Revoke("A", "ok", "at", i, "at")
DevPre == <<DevStart("P", "ok", Full, Full, <<>>), DevDecide(1, "accept")>>

JAuth(j) == [op |-> "jauth", val |-> j]
JBearer(j) == [op |-> "jbearer", val |-> j]
AuthzImplicit == Authz("A", "token", Full, Full, <<>>, "sent", "none")        \* at 1, nothing else

Scn(name, cfg, pre, ps, po) == [name |-> name, cfg |-> cfg, pre |-> pre, procs |-> ps, post |-> po]

(* C18: one request with injected storage errors, then a legitimate retry and a replay *)
FaultScenarios(store) ==
  { Scn("redeem", CfgStore(store), <<AuthzCode>>, <<RedeemOK(1)>>, <<RedeemOK(1), RedeemOK(1), RefreshOK(1)>>),
    Scn("redeem_pkce", CfgStore(store), <<AuthzPkce>>, <<RedeemV(1, "right")>>, <<RedeemV(1, "none"), RedeemV(1, "right"), RedeemV(1, "right")>>),
    Scn("redeem_hybrid", CfgStore(store), <<AuthzHyb>>, <<RedeemOK(1)>>, <<RedeemOK(1), RedeemOK(1)>>),
    Scn("redeem_replay", CfgStore(store), <<AuthzCode, RedeemOK(1)>>, <<RedeemOK(1)>>, <<RefreshOK(1)>>),
    Scn("refresh", CfgStore(store), <<AuthzCode, RedeemOK(1)>>, <<RefreshOK(1)>>, <<RefreshOK(1), RefreshOK(2), RefreshOK(1)>>),
    Scn("refresh_reuse", CfgStore(store), <<AuthzCode, RedeemOK(1), RefreshOK(1)>>, <<RefreshOK(1)>>, <<RefreshOK(2), RefreshOK(1)>>),
    Scn("revoke", CfgStore(store), <<AuthzCode, RedeemOK(1)>>, <<RevokeRT(1)>>, <<RevokeRT(1), RefreshOK(1)>>),
    Scn("authorize", CfgStore(store), <<>>, <<AuthzPkce>>, <<RedeemV(1, "none"), RedeemV(1, "right")>>),
    Scn("authorize_hybrid", CfgStore(store), <<>>, <<AuthzHyb>>, <<RedeemOK(1)>>),
    Scn("implicit", CfgStore(store), <<>>, <<AuthzImplicit>>, <<>>),
    Scn("revoke_at", CfgStore(store), <<AuthzCode, RedeemOK(1)>>, <<RevokeAT(1)>>, <<RevokeAT(1), RefreshOK(1)>>),
    Scn("jbearer", CfgStore(store), <<>>, <<JBearer("j1")>>, <<>>),
    Scn("jauth", CfgStore(store), <<>>, <<JAuth("j1")>>, <<>>),
    Scn("ccreds", CfgStore(store), <<>>, <<CCreds("A", "ok", <<"a">>, <<>>)>>, <<>>),
    Scn("password", CfgStore(store), <<>>, <<Password("A", "ok", "ok", <<"offline", "a">>, <<>>)>>, <<RefreshOK(1)>>),
    Scn("push", CfgStore(store), <<>>, <<Push("A", "ok", "code", <<"offline", "a">>, <<>>, "sent", "none", 0)>>, <<UsePar("A", "own", 1, "none")>>),
    Scn("usepar", CfgStore(store), <<Push("A", "ok", "code_token", Full, <<>>, "sent", "none", 0)>>, <<UsePar("A", "own", 1, "none")>>,
        <<UsePar("A", "own", 1, "none"), RedeemOK(1)>>),
    Scn("devpoll", [CfgStore(store) EXCEPT !.rscopes = <<>>], DevPre, <<DevPoll("P", "ok", 1)>>, <<DevPoll("P", "ok", 1), DevPoll("P", "ok", 1)>>) }
(* C17 under storage failures: a request_uri starts at most one authorization whatever fails while it is pushed or
   redeemed; the failed attempt is followed by a second, a third use and the redemption of whatever codes came out *)
ParFaultScenarios(store) ==
  { Scn("par_use", CfgStore(store), <<Push("A", "ok", "code", <<"offline", "a">>, <<>>, "sent", "none", 0)>>, <<UsePar("A", "own", 1, "none")>>,
        <<UsePar("A", "own", 1, "none"), UsePar("A", "own", 1, "none"), RedeemOK(1)>>),
    Scn("par_use_hybrid", CfgStore(store), <<Push("A", "ok", "code_token", Full, <<>>, "sent", "none", 0)>>, <<UsePar("A", "own", 1, "none")>>,
        <<UsePar("B", "own", 1, "none"), UsePar("A", "own", 1, "none"), UsePar("A", "own", 1, "none")>>),
    Scn("par_push", CfgStore(store), <<>>, <<Push("A", "ok", "code", <<"offline", "a">>, <<>>, "sent", "none", 0)>>,
        <<UsePar("A", "own", 1, "none"), UsePar("A", "own", 1, "none")>>) }
ScnParFault == ParFaultScenarios("mem") \cup ParFaultScenarios("tx")
(* C03 under storage failures: a code issued with a challenge is redeemed without, with the right and with a wrong verifier while
   one storage call fails; afterwards the binding is still in force (no verifier: refused; the right one: redeemable once) *)
PkceFaultScenarios(store) ==
  { Scn("pkce_none", CfgStore(store), <<AuthzPkce>>, <<RedeemV(1, "none")>>, <<RedeemV(1, "none"), RedeemV(1, "right"), RedeemV(1, "right")>>),
    Scn("pkce_right", CfgStore(store), <<AuthzPkce>>, <<RedeemV(1, "right")>>, <<RedeemV(1, "none"), RedeemV(1, "right")>>),
    Scn("pkce_wrong", CfgStore(store), <<AuthzPkce>>, <<RedeemV(1, "wrong")>>, <<RedeemV(1, "none"), RedeemV(1, "right")>>) }
ScnPkceFault == PkceFaultScenarios("mem") \cup PkceFaultScenarios("tx")
ScnFaultTx == FaultScenarios("tx")
(* C04 under storage failures: rotation and reuse handling with one failing storage call (a missing row included) *)
ScnReuseFault == {s \in FaultScenarios("tx") \cup FaultScenarios("mem") : s.name \in {"refresh", "refresh_reuse", "redeem_replay"}}
ScnFaultMem == FaultScenarios("mem")

(* C19: two or three requests in flight on overlapping credentials, reference store *)
ScnConc2 ==
  { Scn("redeem||redeem", BaseCfg, <<AuthzCode>>, <<RedeemOK(1), RedeemOK(1)>>, <<RefreshOK(1)>>),
    Scn("refresh||refresh", BaseCfg, <<AuthzCode, RedeemOK(1)>>, <<RefreshOK(1), RefreshOK(1)>>, <<RefreshOK(2)>>),
    Scn("refresh||revoke", BaseCfg, <<AuthzCode, RedeemOK(1)>>, <<RefreshOK(1), RevokeRT(1)>>, <<RefreshOK(2)>>),
    Scn("redeem||revokeAT", BaseCfg, <<AuthzHyb>>, <<RedeemOK(1), RevokeAT(1)>>, <<RefreshOK(1)>>),
    Scn("refresh||probe", BaseCfg, <<AuthzCode, RedeemOK(1)>>, <<RefreshOK(1), Probe("at", 1)>>, <<>>),
    Scn("replay||refresh", BaseCfg, <<AuthzCode, RedeemOK(1)>>, <<RedeemOK(1), RefreshOK(1)>>, <<RefreshOK(2)>>),
    Scn("authorize||authorize", BaseCfg, <<>>, <<AuthzHyb, AuthzPkce>>, <<RedeemOK(1), RedeemV(2, "right")>>),
    Scn("devpoll||devpoll", [BaseCfg EXCEPT !.rscopes = <<>>], DevPre, <<DevPoll("P", "ok", 1), DevPoll("P", "ok", 1)>>, <<RefreshOK(1)>>),
    Scn("usepar||usepar", BaseCfg, <<Push("A", "ok", "code", <<"offline", "a">>, <<>>, "sent", "none", 0)>>,
        <<UsePar("A", "own", 1, "none"), UsePar("A", "own", 1, "none")>>, <<RedeemOK(1)>>),
    Scn("redeem_pkce||redeem_pkce", BaseCfg, <<AuthzPkce>>, <<RedeemV(1, "right"), RedeemV(1, "right")>>, <<RefreshOK(1)>>),
    Scn("reuse||refresh", BaseCfg, <<AuthzCode, RedeemOK(1), RefreshOK(1)>>, <<RefreshOK(1), RefreshOK(2)>>, <<RefreshOK(2), RefreshOK(3)>>),
    Scn("authorize||usepar", BaseCfg, <<Push("A", "ok", "code", <<"offline", "a">>, <<>>, "sent", "none", 0)>>,
        <<AuthzCode, UsePar("A", "own", 1, "none")>>, <<RedeemOK(1), RedeemOK(2)>>),
    Scn("revokeAT||probe", BaseCfg, <<AuthzCode, RedeemOK(1)>>, <<RevokeAT(1), Probe("rt", 1)>>, <<RefreshOK(1)>>),
    Scn("password||ccreds", BaseCfg, <<>>, <<Password("A", "ok", "ok", <<"offline", "a">>, <<>>), CCreds("B", "ok", <<"a">>, <<>>)>>, <<RefreshOK(1)>>) }
ScnConc3 ==
  { Scn("refresh||revoke||probe", BaseCfg, <<AuthzCode, RedeemOK(1)>>, <<RefreshOK(1), RevokeRT(1), Probe("rt", 1)>>, <<>>),
    Scn("revoke||revoke||probe", BaseCfg, <<AuthzCode, RedeemOK(1)>>, <<RevokeRT(1), RevokeAT(1), Probe("at", 1)>>, <<RefreshOK(1)>>) }
(* three full requests at once: far too many interleavings to enumerate (21!/(7!)^3), always sampled *)
ScnConc3Big ==
  { Scn("refresh||refresh||refresh", BaseCfg, <<AuthzCode, RedeemOK(1)>>, <<RefreshOK(1), RefreshOK(1), RefreshOK(1)>>, <<RefreshOK(2)>>),
    Scn("redeem||redeem||redeem", BaseCfg, <<AuthzCode>>, <<RedeemOK(1), RedeemOK(1), RedeemOK(1)>>, <<RefreshOK(1)>>),
    Scn("reuse||refresh||revoke", BaseCfg, <<AuthzCode, RedeemOK(1), RefreshOK(1)>>, <<RefreshOK(1), RefreshOK(2), RevokeRT(2)>>, <<RefreshOK(2)>>),
    Scn("redeem||refresh||revoke", BaseCfg, <<AuthzHyb, AuthzCode, RedeemOK(2)>>, <<RedeemOK(1), RefreshOK(1), RevokeAT(1)>>, <<RefreshOK(2)>>) }
(* C15: the same assertion presented by two / three requests at once; different jtis do not interfere *)
ScnJti ==
  { Scn("jauth||jauth", BaseCfg, <<>>, <<JAuth("j1"), JAuth("j1")>>, <<>>),
    Scn("jauth||jauth||jauth", BaseCfg, <<>>, <<JAuth("j1"), JAuth("j1"), JAuth("j1")>>, <<>>),
    Scn("jbearer||jbearer", BaseCfg, <<>>, <<JBearer("j1"), JBearer("j1")>>, <<>>),
    Scn("jbearer||jbearer||jbearer", BaseCfg, <<>>, <<JBearer("j1"), JBearer("j1"), JBearer("j1")>>, <<>>),
    Scn("jauth||jauth-other", BaseCfg, <<>>, <<JAuth("j1"), JAuth("j2")>>, <<>>),
    Scn("jauth||jbearer", BaseCfg, <<>>, <<JAuth("j1"), JBearer("j1")>>, <<>>) }
ScnSmoke == { Scn("redeem", CfgStore("tx"), <<AuthzCode>>, <<RedeemOK(1)>>, <<RedeemOK(1)>>) }

(* ---- behaviour ------------------------------------------------------------------- *)
StartAll(g, ops) == [p \in 1..Len(ops) |-> StartProc(g, ops[p])]

Init ==
  \E s \in Scenarios :
     LET st1 == ApplyAll(InitState(s.cfg), s.pre, 1)
         g == InitG(st1)
     IN /\ sc = s /\ G = g /\ S0 = st1.S
        /\ procs = StartAll(g, s.procs)
        /\ hist = <<>> /\ nf = 0 /\ post = 1 /\ stepok = {} /\ faultpc = "none"

Running == {p \in DOMAIN procs : procs[p].pc # "done"}

StepProc ==
  \E p \in Running :
    \E f \in {"none"} \cup (IF nf < MaxFaults THEN Kinds ELSE {}) :
       LET r == PStep(G, procs[p], f) IN
       /\ G' = r.G
       /\ procs' = [procs EXCEPT ![p] = r.pr]
       /\ hist' = Append(hist, [p |-> p, f |-> f])
       /\ nf' = IF f = "none" THEN nf ELSE nf + 1
       /\ faultpc' = IF f = "none" THEN faultpc ELSE procs[p].pc
       /\ UNCHANGED <<sc, S0, post, stepok>>

PostOp ==
  /\ Running = {} /\ post <= Len(sc.post)
  /\ LET op == sc.post[post]
         r == Apply(G.st, op)
     IN /\ G' = [G EXCEPT !.st = r.st]
        /\ stepok' = stepok \cup FailedStep(G.st, op, r) \cup FailedState(r.st)
        /\ post' = post + 1
  /\ UNCHANGED <<procs, hist, nf, sc, S0, faultpc>>

Next == StepProc \/ PostOp
Spec == Init /\ [][Next]_vars

AllDone == Running = {} /\ post > Len(sc.post)

(* ---- invariants ---------------------------------------------------------------- *)
TxPcs == {"rd.inval", "rd.createAT", "rd.createRT", "rd.commit", "rf.rdel", "rf.rrevrt", "rf.rrevat", "rf.rcommit",
          "rf.rotate", "rf.createAT", "rf.createRT", "rf.commit", "dp.inval", "dp.createAT", "dp.createRT", "dp.commit",
          "rd.rollback", "rf.rollback", "dp.rollback"}
IssuingPcs == {"rd.inval", "rd.createAT", "rd.createRT", "rd.commit", "rf.rotate", "rf.createAT", "rf.createRT", "rf.commit",
               "dp.inval", "dp.createAT", "dp.createRT", "dp.commit"}
TokenReq(p) == procs[p].op.op \in {"redeem", "refresh", "devpoll", "jauth", "jbearer"}

(* C18 *)
NoTokensOnFailure ==
  \A p \in DOMAIN procs : (procs[p].pc = "done" /\ procs[p].out.res # "ok") =>
       procs[p].out.at = 0 /\ procs[p].out.rt = 0 /\ ~procs[p].out.idt
TxLogBalanced == Running = {} => TxBalanced(G.txlog) \/ Len(procs) > 1
RollbackRestores ==    \* a failure inside the issuing transaction leaves every record as it was before the request
  (Len(procs) = 1 /\ Running = {} /\ IsTx(G) /\ nf = 1 /\ faultpc \in IssuingPcs /\ post = 1) => G.st.S = S0
FailClosed ==          \* nothing that was not usable before becomes usable through a failed request
  (Len(procs) = 1 /\ Running = {} /\ procs[1].out.res # "ok" /\ post = 1) => Usable(G.st) \subseteq Usable([G.st EXCEPT !.S = S0])
DeliveredOnlyOnSuccess ==
  \A p \in DOMAIN procs : (procs[p].pc = "done" /\ procs[p].out.res = "ok" /\ TokenReq(p)) =>
       /\ procs[p].out.at # 0 /\ G.st.S.at[procs[p].out.at].dl
RetryStillGuarded == stepok = {}       \* every guard of Grants holds for the retry and the replay after the fault
StateInv == Running = {} => StateInvariant(G.st) \/ Len(procs) > 1

(* C17 *)
ParAtMostOnce ==       \* scenarios with ONE pushed request and no plain authorization: at most one code / front-channel token ever comes out
  sc.name \in {"par_use", "par_use_hybrid", "par_push"} => Count(G.st.S.code) <= 1

(* C19 *)
HandedOutActiveOrKilledByPeer ==
  \A p \in DOMAIN procs : (procs[p].pc = "done" /\ procs[p].out.res = "ok" /\ TokenReq(p) /\ post = 1) =>
       \/ ATActive(G.st, procs[p].out.at)
       \/ (Len(procs) > 1 /\ G.st.S.at[procs[p].out.at].why # "")      \* invalidated by a concurrent request
(* C15 *)
JtiAtMostOnce ==
  \A p, q \in DOMAIN procs :
     (p # q /\ procs[p].pc = "done" /\ procs[q].pc = "done" /\ procs[p].out.res = "ok" /\ procs[q].out.res = "ok"
      /\ procs[p].op.op \in {"jauth", "jbearer"} /\ procs[q].op.op \in {"jauth", "jbearer"}) => procs[p].op.val # procs[q].op.val
JtiSomeoneWins ==     \* not vacuous: when all presentations have finished, exactly one of those sharing a jti succeeded
  (Running = {} /\ \A p \in DOMAIN procs : procs[p].op.op \in {"jauth", "jbearer"}) =>
     \A p \in DOMAIN procs : \E q \in DOMAIN procs : procs[q].op.val = procs[p].op.val /\ procs[q].out.res = "ok"
MintFresh ==
  \A p, q \in DOMAIN procs : (p # q /\ procs[p].pc = "done" /\ procs[q].pc = "done" /\ procs[p].out.at # 0) =>
       procs[p].out.at # procs[q].out.at
TypeOK ==
  /\ DOMAIN G.st.S.at = 1..Count(G.st.S.at) /\ DOMAIN G.st.S.rt = 1..Count(G.st.S.rt)
  /\ \A p \in DOMAIN procs : procs[p].pc = "done" \/ MethodOf(procs[p]) # "none"

(* refinement: one request alone, no fault, is exactly the Grants step *)
SeqRefines ==
  hist = <<>> =>
    \A p \in DOMAIN procs :
       LET r == RunSeq(G, procs[p])
           a == Apply(G.st, sc.procs[p])
       IN sc.procs[p].op \in {"probe", "jauth", "jbearer"} \/ (r.G.st = a.st /\ r.pr.out.res = a.out.res /\ r.pr.out.at = a.out.at /\ r.pr.out.rt = a.out.rt
                                         /\ r.pr.out.code = a.out.code /\ r.pr.out.idt = a.out.idt)

View == <<G, procs, nf, sc.name, post, stepok, faultpc>>

EmitHist == (Emit /\ AllDone) =>
  PrintT(<<"HIST", ToJson([name |-> sc.name, cfg |-> sc.cfg, pre |-> sc.pre, procs |-> sc.procs, sched |-> hist, post |-> sc.post])>>)
=============================================================================
