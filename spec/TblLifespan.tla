----------------------------- MODULE TblLifespan -----------------------------
(***************************************************************************)
(* C07, lifetime sources: the effective lifetime of every token kind of     *)
(* every flow is the per-client override for EXACTLY that (grant, token     *)
(* kind) pair if one is set, else the configured server value; a refresh    *)
(* token lifetime of -1 means "never expires".  The table crosses every     *)
(* flow with every single override pair (so that an override is seen to     *)
(* have no effect on any other pair), two override values on either side of *)
(* the default, both refresh-token defaults (finite / unlimited) and both   *)
(* access-token strategies.  The harness obtains the tokens on the fake     *)
(* clock and checks advertised expires_in / exp and the first instant of    *)
(* refusal against these numbers (ticks).                                   *)
(***************************************************************************)
EXTENDS Integers, Sequences, FiniteSets, TLC, Json, IOUtils, SequencesExt

Pairs == { <<"authorization_code", "access">>, <<"authorization_code", "id">>, <<"authorization_code", "refresh">>,
           <<"client_credentials", "access">>, <<"implicit", "access">>, <<"implicit", "id">>, <<"jwt_bearer", "access">>,
           <<"password", "access">>, <<"password", "refresh">>,
           <<"refresh_token", "id">>, <<"refresh_token", "access">>, <<"refresh_token", "refresh">> }
Flows == {"authorization_code", "implicit", "client_credentials", "jwt_bearer", "password", "refresh_token", "device_code"}
Issues(flow) ==   \* which token kinds a flow hands out (with openid + offline granted)
  CASE flow \in {"authorization_code", "refresh_token"} -> {"access", "refresh", "id"}
    [] flow = "implicit" -> {"access", "id"}
    [] flow \in {"password", "device_code"} -> {"access", "refresh"}
    [] OTHER -> {"access"}

DefaultAT == 3
DefaultID == 4
Eff(flow, kind, ov, val, rtd) ==
  IF kind \notin Issues(flow) THEN 0
  ELSE IF ov = <<flow, kind>> THEN val
  ELSE CASE kind = "access" -> DefaultAT [] kind = "id" -> DefaultID [] OTHER -> rtd

Rows ==
  { [flow |-> f, ov_grant |-> ov[1], ov_kind |-> ov[2], val |-> v, rt_default |-> rtd, at_strategy |-> s,
     at |-> Eff(f, "access", ov, v, rtd), rt |-> Eff(f, "refresh", ov, v, rtd), id |-> Eff(f, "id", ov, v, rtd)] :
       f \in Flows, ov \in Pairs \cup {<<"none", "none">>}, v \in {1, 5, -1}, rtd \in {6, -1}, s \in {"hmac", "jwt"} }
ValidRows == { r \in Rows : (r.val = -1 => r.ov_kind = "refresh") /\ (r.ov_grant = "none" => r.val = 1) }

(* an override moves exactly one number *)
ASSUME \A f \in Flows, ov \in Pairs, v \in {1, 5}, rtd \in {6, -1} :
         \A k \in {"access", "refresh", "id"} : (ov # <<f, k>>) => Eff(f, k, ov, v, rtd) = Eff(f, k, <<"none", "none">>, 1, rtd)
ASSUME PrintT(<<"ROWS", Cardinality(ValidRows)>>)
ASSUME JsonSerialize(IOEnv.VERIF_TABLE_LIFE, SetToSeq(ValidRows))

VARIABLE x
Init == x = 0
Next == x' = x
Spec == Init /\ [][Next]_x
=============================================================================
