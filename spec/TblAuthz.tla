------------------------------- MODULE TblAuthz -------------------------------
(***************************************************************************)
(* C13: which authorization requests are accepted, and where the response   *)
(* parameters travel.  Registration (response types as sets, response       *)
(* modes, grant types) x request (response_type list with order and         *)
(* duplicates, response_mode, state length, nonce, openid, redirect_uri)    *)
(*   |->  accept / refuse (error class), what is issued, and the placement  *)
(* of the response parameters (query / fragment / form_post).               *)
(***************************************************************************)
EXTENDS Integers, Sequences, FiniteSets, TLC, Json, IOUtils, SequencesExt

AllCombos == {{"code"}, {"token"}, {"id_token"}, {"code", "token"}, {"code", "id_token"}, {"id_token", "token"}, {"code", "id_token", "token"}}
RegTypes == { AllCombos, {{"code"}}, {{"token"}}, {{"code", "id_token"}, {"code"}}, {{"id_token", "token"}, {"id_token"}},
              {{"code", "id_token", "token"}}, {{"code", "token"}} }      \* one large combination only: its subsets are NOT registered
RegModes == { "none", "all", "fragment_only" }      \* none: the client does not implement ResponseModeClient
RegGrants == { "all", "no_implicit", "no_code" }
ReqTypes == { <<"code">>, <<"token">>, <<"id_token">>, <<"code", "token">>, <<"token", "code">>, <<"code", "id_token">>,
              <<"id_token", "token">>, <<"code", "id_token", "token">>, <<"token", "id_token", "code">>, <<"code", "code">>,
              <<"bogus">>, <<"code", "bogus">>, <<>>,
              \* an unregistered subset padded with a repeated value to the length of a registered combination
              <<"id_token", "token", "token">>, <<"token", "token">>, <<"code", "token", "code">> }
ReqModes == {"", "query", "fragment", "form_post", "bogus"}

HasGrant(g, x) == g = "all" \/ (g = "no_implicit" /\ x # "implicit") \/ (g = "no_code" /\ x # "authorization_code")
ModeAllowed(rm, m) == (rm = "all" /\ m \in {"query", "fragment", "form_post"}) \/ (rm = "fragment_only" /\ m = "fragment")

(* verdict of the request; follows the order in which the checks are made *)
Verdict(rt, rm, rg, types, mode, stateLen, nonce, openid, redir) ==
  LET T == Range(types)
      nodup == Len(types) = Cardinality(T)
      hybrid == T \in {{"code", "token"}, {"code", "id_token"}, {"code", "id_token", "token"}}
      defaultFragment == T # {"code"}
  IN
  IF mode = "bogus" THEN "unsupported_response_mode"
  ELSE IF openid /\ ~redir THEN "invalid_request"
  ELSE IF types = <<>> \/ ~nodup \/ T \notin rt THEN "unsupported_response_type"
  ELSE IF mode # "" /\ ~ModeAllowed(rm, mode) THEN "unsupported_response_mode"
  ELSE IF stateLen < 8 THEN "invalid_state"
  ELSE \* handlers
  IF T = {"code"} THEN "ok"
  ELSE IF T = {"token"} THEN (IF ~HasGrant(rg, "implicit") THEN "invalid_grant" ELSE IF mode = "query" THEN "unsupported_response_mode" ELSE "ok")
  ELSE IF T \in {{"id_token"}, {"id_token", "token"}} THEN
       IF ~openid THEN "unsupported_response_type"
       ELSE IF ~HasGrant(rg, "implicit") THEN "invalid_grant"
       ELSE IF nonce = 0 THEN "invalid_request"
       ELSE IF nonce < 8 THEN "insufficient_entropy"
       ELSE IF mode = "query" THEN "unsupported_response_mode" ELSE "ok"
  ELSE \* hybrid
       IF nonce = 0 /\ "id_token" \in T THEN "invalid_request"
       ELSE IF nonce > 0 /\ nonce < 8 THEN "insufficient_entropy"
       ELSE IF ~redir THEN "invalid_request"
       ELSE IF ~HasGrant(rg, "authorization_code") THEN "invalid_grant"
       ELSE IF "token" \in T /\ ~HasGrant(rg, "implicit") THEN "invalid_grant"
       ELSE IF mode = "query" THEN "unsupported_response_mode" ELSE "ok"

Placement(types, mode) ==
  IF mode # "" THEN mode ELSE IF Range(types) = {"code"} THEN "query" ELSE "fragment"

Row(rt, rm, rg, types, mode, stateLen, nonce, openid, redir) ==
  LET v == Verdict(rt, rm, rg, types, mode, stateLen, nonce, openid, redir)
      T == Range(types)
  IN [ regtypes |-> SetToSeq({SetToSeq(c) : c \in rt}), regmodes |-> rm, reggrants |-> rg,
       types |-> types, mode |-> mode, state_len |-> stateLen, nonce |-> nonce, openid |-> openid, redir |-> redir,
       verdict |-> v, accept |-> v = "ok",
       place |-> IF v = "ok" THEN Placement(types, mode) ELSE "-",
       code |-> v = "ok" /\ "code" \in T, at |-> v = "ok" /\ "token" \in T,
       idt |-> v = "ok" /\ "id_token" \in T /\ openid ]

Rows == { Row(rt, rm, rg, ty, m, sl, n, o, rd) :
            rt \in RegTypes, rm \in RegModes, rg \in RegGrants, ty \in ReqTypes, m \in ReqModes,
            sl \in {7, 8}, n \in {0, 7, 8}, o \in BOOLEAN, rd \in BOOLEAN }

(* the statement's safety clauses hold of the specification itself *)
ASSUME \A r \in Rows : r.at => r.reggrants # "no_implicit"                      \* no implicit grant => no access token from this endpoint
ASSUME \A r \in Rows : (r.at \/ r.idt) => r.place # "query"                     \* tokens never travel in the query
ASSUME \A r \in Rows : r.accept => (r.state_len >= 8 /\ (r.openid => r.redir))
ASSUME \A r \in Rows : r.idt => r.nonce >= 8
ASSUME PrintT(<<"ROWS", Cardinality(Rows)>>)
ASSUME JsonSerialize(IOEnv.VERIF_TABLE_AUTHZ, SetToSeq(Rows))

VARIABLE x
Init == x = 0
Next == x' = x
Spec == Init /\ [][Next]_x
=============================================================================
