------------------------------ MODULE TblIDToken ------------------------------
(***************************************************************************)
(* C14: when an ID Token is issued and what it is bound to.                 *)
(* (A) flow x openid granted x subject x signing key/algorithm x pre-set    *)
(*     expiry  |->  issued?, algorithm, which hash claims, hash function;   *)
(* (B) flow x max_age x (auth_time - requested_at) x prompt x id_token_hint *)
(*     |-> issued?                                                          *)
(* H_alg is uninterpreted here (only its output size is named); the harness *)
(* computes it with the standard library and compares the left half.        *)
(***************************************************************************)
EXTENDS Integers, Sequences, FiniteSets, TLC, Json, IOUtils, SequencesExt

\* refresh_hybrid: the refreshed grant started in the hybrid flow (its session once carried a c_hash)
Flows == {"code", "implicit_idt", "implicit_idt_token", "hybrid_code_idt", "hybrid_code_idt_token", "refresh", "refresh_hybrid", "device"}
Keys == {"rsa", "ec256", "jwk_es384", "jwk_es512", "jwk_rs384", "jwk_es384_nohdr"}   \* *_nohdr: the session's ID-token header does not name the algorithm
Alg(k) == CASE k = "rsa" -> "RS256" [] k = "ec256" -> "ES256" [] k = "jwk_es512" -> "ES512" [] k = "jwk_rs384" -> "RS384" [] OTHER -> "ES384"
HashBits(k) == CASE Alg(k) \in {"RS256", "ES256"} -> 256 [] Alg(k) \in {"ES384", "RS384"} -> 384 [] OTHER -> 512
Presets == {"none", "future", "past"}

AtHash(f) == f \in {"code", "implicit_idt_token", "hybrid_code_idt_token", "refresh", "refresh_hybrid", "device"}   \* an access token is delivered in the same response
CHash(f) == f \in {"hybrid_code_idt", "hybrid_code_idt_token"}                                    \* a code is delivered in the same response

\* session_aud: the application's session already names an audience of its own; the requesting client is named all the same.
\* The same sessions carry custom claims NAMED nonce / at_hash / c_hash: they never stand in for the claims the server computes
\* (at_hash / c_hash / nonce are present exactly when this table says so, with the computed values)
\* issuer: what the application's session says about the issuer. "same": the configured issuer; "tenant": an issuer of its own (a
\* multi-tenant deployment), which the ID Token carries, since it carries the SESSION's issuer; "unset": nothing, so the configured one
Issuers == {"same", "tenant", "unset"}
RowsA == { [tbl |-> "A", flow |-> f, openid |-> o, subject |-> s, key |-> k, preset |-> p, session_aud |-> sa, issuer |-> i,
            iss |-> IF i = "tenant" THEN "tenant" ELSE "config",
            issued |-> o /\ s # "" /\ p # "past",
            alg |-> Alg(k), hash_bits |-> HashBits(k), at_hash |-> AtHash(f), c_hash |-> CHash(f),
            undet |-> k = "jwk_es384_nohdr"] :
            f \in Flows, o \in BOOLEAN, s \in {"peter", ""}, k \in Keys, p \in Presets, sa \in BOOLEAN, i \in Issuers }
ValidA == { r \in RowsA : (r.key # "rsa" => (r.openid /\ r.subject # "" /\ r.preset = "none" /\ ~r.session_aud /\ r.issuer = "same")) }

(* (B) offsets in ticks of auth_time relative to requested_at; max_age in ticks (0 = absent) *)
\* 50: auth_time lies in the future (after "now"); 99: the session has no auth_time at all
Offsets == {-3, -1, 0, 1, 50, 99}
MaxOK(ma, off) == IF off = 99 THEN ma = 0 ELSE (ma = 0 \/ off >= -ma)
PromptOK(pr, off) ==
  CASE pr = "none" -> off # 99 /\ off <= 0
    [] pr \in {"login", "login consent"} -> off # 99 /\ off >= 0      \* login together with another allowed value is still login
    [] pr \in {"none login", "bogus"} -> FALSE          \* none together with another value, an unknown value
    [] pr = "consent" -> off # 99                         \* any prompt needs an auth_time to be judged against
    [] OTHER -> TRUE                                      \* absent
NotFuture(off) == off # 50
HintOK(h) == h \in {"none", "same", "same_expired"}      \* other: another subject; garbage / no_sub / foreign_key: not a usable ID token of this server
RowsB == { [tbl |-> "B", flow |-> f, max_age |-> ma, offset |-> off, prompt |-> pr, hint |-> h,
            issued |-> MaxOK(ma, off) /\ PromptOK(pr, off) /\ HintOK(h) /\ NotFuture(off)] :
            f \in {"code", "implicit_idt_token", "hybrid_code_idt"}, ma \in {0, 2}, off \in Offsets, pr \in {"", "none", "login", "consent", "login consent", "none login", "bogus"},
            h \in {"none", "same", "other", "same_expired", "other_expired", "garbage", "no_sub", "foreign_key", "foreign_key_expired"} }   \* an expired hint is still a hint: only its expiry is forgiven

ASSUME \A r \in ValidA : r.issued => (r.openid /\ r.subject # "")
ASSUME \A r \in ValidA : (r.iss = "tenant" <=> r.issuer = "tenant")
ASSUME \A r \in ValidA : (r.flow \in {"refresh", "refresh_hybrid"} => ~r.c_hash)
ASSUME PrintT(<<"ROWS", Cardinality(ValidA), Cardinality(RowsB)>>)
ASSUME JsonSerialize(IOEnv.VERIF_TABLE_IDT, SetToSeq(ValidA) \o SetToSeq(RowsB))

VARIABLE x
Init == x = 0
Next == x' = x
Spec == Init /\ [][Next]_x
=============================================================================
