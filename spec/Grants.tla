------------------------------- MODULE Grants -------------------------------
(***************************************************************************)
(* Sequential design of the ory/fosite authorization server: one operator  *)
(* per public API operation, each the composition of the storage calls of  *)
(* Store.tla in the order the handlers issue them, guarded by the checks   *)
(* the handlers perform.  Apply(st, op) is a deterministic function        *)
(*   (state, operation) -> (state', outcome)                               *)
(* so the same text serves three purposes:                                 *)
(*   - MCGrants.tla   picks operations nondeterministically from a bounded *)
(*                    alphabet and TLC checks the property invariants in   *)
(*                    every reachable state (and prints behaviours that    *)
(*                    the harness replays on the real code);               *)
(*   - TraceGrants.tla replays operations logged by the harness from the   *)
(*                    real code and compares every logged observation with *)
(*                    the outcome / probe / projection computed here;      *)
(*   - Steps.tla      refines each operation into its storage calls.       *)
(* Every refusal carries a reason tag; tags are owned by properties        *)
(* (lib/owners.py) so a mismatch can be attributed.                         *)
(***************************************************************************)
EXTENDS Store

Clients == {"A", "B", "P"}
Public(c) == c = "P"
AllScopes == {"openid", "offline", "a", "b"}
ScopeSeq == <<"a", "b", "offline", "openid">>          \* sorted, for rendering
AudA == "https://api.a.example/"
AudB == "https://api.b.example/"
AllAud == {AudA, AudB}
AudSeq == <<AudA, AudB>>
GDevice == "urn:ietf:params:oauth:grant-type:device_code"
GJwt == "urn:ietf:params:oauth:grant-type:jwt-bearer"
AllGrants == {"authorization_code", "refresh_token", "implicit", "password", "client_credentials", GDevice, GJwt}
RedirectOf(c) == CASE c = "A" -> "https://a.example/cb" [] c = "B" -> "https://b.example/cb" [] OTHER -> "https://p.example/cb"
PushedState == "state-0123456789-pushed"
PushedNonce == "nonce-0123456789"
Subject == "peter"

InitReg == [c \in Clients |-> [scopes |-> AllScopes, aud |-> AllAud, grants |-> AllGrants]]

(* The abstract state: configuration, clock, client registrations, the store, and
   ghost variables used only by the property invariants. *)
InitState(cfg) ==
  [ cfg |-> cfg, now |-> 0, reg |-> InitReg, S |-> EmptyStore, nrid |-> 0, nep |-> 0,
    replayed |-> {},   \* codes on which replay detection fired (ghost, C01)
    reused   |-> {},   \* request ids on which refresh-token reuse detection fired (ghost, C04)
    revoked  |-> {},   \* <<kind, id>> of tokens covered by an accepted revocation: the presented
                       \* token and the token issued alongside it (ghost, C08)
    devused  |-> {} ]  \* device ids whose replay was detected (ghost, C16)

RScopes(st) == Range(st.cfg.rscopes)

(* ---- outcome records ---------------------------------------------------- *)
Out0 == [res |-> "ok", reason |-> "ok", code |-> 0, at |-> 0, rt |-> 0, dev |-> 0, par |-> 0,
         idt |-> FALSE, expin |-> -1, note |-> ""]
Ret(st, out) == [st |-> st, out |-> out]
Fail(st, res, reason) == Ret(st, [Out0 EXCEPT !.res = res, !.reason = reason])

(* ---- activity ------------------------------------------------------------ *)
ATActive(st, i) == Has(st.S.at, i) /\ st.S.at[i].present /\ st.now <= st.S.at[i].exp
RTActive(st, j) == Has(st.S.rt, j) /\ st.S.rt[j].present /\ st.S.rt[j].active
                   /\ (st.S.rt[j].exp = -1 \/ st.now <= st.S.rt[j].exp)

(* ---- client authentication (secret-based, abstract) --------------------- *)
AuthErr(op) ==
  \* "hdr_victim": a public client names itself in the Basic header (no secret) and ANOTHER client in the body's
  \* client_id; the header identifies the client, the body does not change who is asking
  IF op.auth = "ok" \/ (Public(op.client) /\ op.auth \in {"bad", "hdr_victim"}) THEN "ok"
  ELSE IF op.auth = "none" THEN "invalid_request" ELSE "invalid_client"
AuthReason(op) == IF op.auth = "none" THEN "client_unauthenticated" ELSE "client_bad_secret"

(* ---- rendering (for the PAR "authoritative" observation) ----------------- *)
RECURSIVE JoinSel(_, _, _)
JoinSel(seq, set, i) ==
  IF i > Len(seq) THEN ""
  ELSE LET rest == JoinSel(seq, set, i + 1) IN
       IF seq[i] \in set THEN (IF rest = "" THEN seq[i] ELSE seq[i] \o " " \o rest) ELSE rest
JoinScopes(s) == JoinSel(ScopeSeq, s, 1)
JoinAud(s) == JoinSel(AudSeq, s, 1)
RTypeSorted(rt) ==
  CASE rt = "code" -> "code" [] rt = "token" -> "token" [] rt = "code_token" -> "code token"
    [] rt = "code_idt" -> "code id_token" [] rt = "code_idt_token" -> "code id_token token"
    [] rt = "idt_token" -> "id_token token" [] OTHER -> "id_token"

HasCode(rt) == rt \in {"code", "code_token", "code_idt", "code_idt_token"}
HasTok(rt)  == rt \in {"code_token", "code_idt_token", "token", "idt_token"}
HasIdt(rt)  == rt \in {"code_idt", "code_idt_token", "idt_token", "idt"}
Hybrid(rt)  == rt \in {"code_token", "code_idt", "code_idt_token"}

(* ======================================================================== *)
(* Authorization endpoint: the handler phase (NewAuthorizeResponse), shared *)
(* by plain requests and requests hydrated from a pushed request.           *)
(*   p = [client, rtype, req, grant, aud, redirSent, pkce]                  *)
(* ======================================================================== *)
PkceAuthzErr(st, p) ==   \* pkce.Handler.validate at the authorization endpoint
  IF ~HasCode(p.rtype) THEN "ok"
  ELSE IF p.pkce = "none"
       THEN IF st.cfg.pkce_all \/ (st.cfg.pkce_pub /\ Public(p.client)) THEN "pkce_required" ELSE "ok"
  ELSE IF p.pkce \in {"S256", "S256_ill"} THEN "ok"
  ELSE IF p.pkce = "s256lc" THEN "pkce_unknown_method"      \* method names are exact: "s256" is not a method
  ELSE IF st.cfg.pkce_plain THEN "ok" ELSE "pkce_plain_disabled"

HandlerPhase(st, p) ==
  LET reg     == st.reg[p.client]
      rid     == st.nrid + 1
      st1     == [st EXCEPT !.nrid = rid, !.nep = @ + 1]
      k       == Count(st.S.code) + 1
      i       == Count(st.S.at) + 1
      openid  == "openid" \in p.grant
      codeRow == [client |-> p.client, rid |-> rid, req |-> p.req, scopes |-> p.grant, aud |-> p.aud,
                  redir |-> p.redirSent, exp |-> st.now + st.cfg.l_code, active |-> TRUE, openid |-> openid, dl |-> TRUE]
      atRow   == [rid |-> rid, client |-> p.client, scopes |-> p.grant, aud |-> p.aud, sub |-> Subject,
                  exp |-> st.now + st.cfg.l_at, via |-> "authz", present |-> TRUE, why |-> "", ep |-> st.nep + 1, dl |-> TRUE]
      wantIdt == openid /\ HasIdt(p.rtype)
      \* rows written before a later handler refuses stay behind (nobody holds the credential)
      SCode   == CreateAuthorizeCodeSession(st1.S, k, codeRow)
      SOidc   == IF openid THEN CreateOpenIDConnectSession(SCode, k) ELSE SCode
      STok    == IF HasTok(p.rtype) THEN CreateAccessTokenSession(SOidc, i, atRow) ELSE SOidc
      Undelivered(S) == [S EXCEPT !.code = [x \in DOMAIN S.code |-> IF x = k THEN [S.code[x] EXCEPT !.dl = FALSE] ELSE S.code[x]],
                                  !.at = [x \in DOMAIN S.at |-> IF x = i THEN [S.at[x] EXCEPT !.dl = FALSE] ELSE S.at[x]]]
      pk      == PkceAuthzErr(st, p)
  IN
  IF p.rtype = "code" THEN
       IF pk # "ok" THEN Fail([st1 EXCEPT !.S = Undelivered(SOidc)], "invalid_request", pk)
       ELSE LET S3 == IF p.pkce # "none" THEN CreatePKCERequestSession(SOidc, k, p.pkce) ELSE SOidc
            IN Ret([st1 EXCEPT !.S = S3], [Out0 EXCEPT !.code = k])
  ELSE IF Hybrid(p.rtype) THEN
       IF ~p.redirSent THEN Fail(st1, "invalid_request", "oidc_redirect_required")
       ELSE IF "authorization_code" \notin reg.grants THEN Fail(st1, "invalid_grant", "grant_type_not_allowed")
       ELSE IF HasTok(p.rtype) /\ "implicit" \notin reg.grants
            THEN Fail([st1 EXCEPT !.S = Undelivered(SOidc)], "invalid_grant", "grant_type_not_allowed")
       ELSE IF pk # "ok"
            THEN Fail([st1 EXCEPT !.S = Undelivered(STok)], "invalid_request", pk)
       ELSE LET S4 == IF p.pkce # "none" THEN CreatePKCERequestSession(STok, k, p.pkce) ELSE STok
            IN Ret([st1 EXCEPT !.S = S4],
                   [Out0 EXCEPT !.code = k, !.at = IF HasTok(p.rtype) THEN i ELSE 0,
                                !.expin = IF HasTok(p.rtype) THEN st.cfg.l_at ELSE -1, !.idt = wantIdt])
  ELSE IF p.rtype = "token" THEN
       IF "implicit" \notin reg.grants THEN Fail(st1, "invalid_grant", "grant_type_not_allowed")
       ELSE Ret([st1 EXCEPT !.S = CreateAccessTokenSession(st1.S, i, atRow)],
                [Out0 EXCEPT !.at = i, !.expin = st.cfg.l_at])
  ELSE \* "idt_token"
       IF ~openid THEN Fail(st1, "unsupported_response_type", "response_type_unhandled")
       ELSE IF "implicit" \notin reg.grants THEN Fail(st1, "invalid_grant", "grant_type_not_allowed")
       ELSE IF ~p.redirSent THEN Fail(st1, "invalid_request", "oidc_redirect_required")
       ELSE Ret([st1 EXCEPT !.S = CreateAccessTokenSession(st1.S, i, atRow)],
                [Out0 EXCEPT !.at = i, !.expin = st.cfg.l_at, !.idt = TRUE])

(* Request validation of NewAuthorizeRequest (also applied by the push endpoint). *)
AuthzRequestErr(st, c, req, aud, redirSent) ==
  LET reg == st.reg[c] IN
  IF ~redirSent /\ "openid" \in req THEN <<"invalid_request", "oidc_redirect_required">>
  ELSE IF ~(req \subseteq reg.scopes) THEN <<"invalid_scope", "scope_not_allowed">>
  ELSE IF ~(aud \subseteq reg.aud) THEN <<"invalid_request", "aud_not_allowed">>
  ELSE <<"ok", "ok">>

DoAuthorize(st, op) ==
  LET req == Range(op.scopes)
      \* the resource owner may grant only some of the requested audiences (gaud; <<"*">> or absent = all of them):
      \* the REQUESTED audience is validated against the registration, the GRANTED one is what the grant carries
      reqAud == Range(op.aud)
      gaud == IF "gaud" \in DOMAIN op THEN Range(op.gaud) ELSE {"*"}
      granted == IF "*" \in gaud THEN reqAud ELSE reqAud \cap gaud
      p == [client |-> op.client, rtype |-> op.rtype, req |-> req, grant |-> Range(op.grant) \cap req,
            aud |-> granted, redirSent |-> op.redir = "sent", pkce |-> op.pkce]
      e == AuthzRequestErr(st, op.client, req, reqAud, p.redirSent)
  IN IF st.cfg.par_enf THEN Fail(st, "invalid_request", "par_enforced")
     ELSE IF e[1] # "ok" THEN Fail(st, e[1], e[2])
     ELSE HandlerPhase(st, p)

(* ======================================================================== *)
(* Token endpoint: authorization_code                                       *)
(* ======================================================================== *)
(* "S256_ill" / "plain_ill": the client derived its challenge from a verifier that contains a character outside the
   unreserved set (the operation's field ill names it: ! [ ] ^ ` \ and so on).  The authorization endpoint cannot know;
   the token endpoint refuses that verifier as malformed, so no verifier redeems such a code. *)
IllMethods == {"S256_ill", "plain_ill"}
VerifierOK(method, ver) ==           \* the presented verifier transforms to the stored challenge
  \* "plain_short": a plain challenge that is itself malformed (42 characters; the authorization endpoint does not
  \* look at its shape): the only verifier equal to it is malformed, so no verifier redeems such a code
  ver = "right" /\ method \notin ({"plain_short"} \cup IllMethods)
PkceTokenErr(st, op, k) ==           \* pkce.Handler.HandleTokenEndpointRequest, given code k exists
  IF ~HasPKCE(st.S, k)
  THEN IF op.ver = "none"
       THEN IF st.cfg.pkce_all \/ (st.cfg.pkce_pub /\ Public(op.client)) THEN <<"invalid_request", "pkce_required">> ELSE <<"ok", "ok">>
       ELSE <<"invalid_grant", "pkce_unexpected_verifier">>
  ELSE LET m == st.S.pkce[k].method IN
       IF m \notin {"S256", "S256_ill"} /\ ~st.cfg.pkce_plain THEN <<"invalid_request", "pkce_plain_disabled">>
       ELSE IF op.ver = "none" THEN <<"invalid_grant", "pkce_missing_verifier">>
       ELSE IF op.ver \in {"short", "long", "illegal"} \/ (op.ver = "right" /\ m \in IllMethods) THEN <<"invalid_grant", "pkce_malformed_verifier">>
       ELSE IF ~VerifierOK(m, op.ver) THEN <<"invalid_grant", "pkce_mismatch">>
       ELSE <<"ok", "ok">>

CanIssueRT(st, granted, client) ==
  (RScopes(st) = {} \/ granted \cap RScopes(st) # {}) /\ "refresh_token" \in st.reg[client].grants

NewPair(st, rid, client, req, scopes, aud, sub, withRT, grantLRT) ==
  \* ids and rows of a freshly minted access (+ refresh) token pair
  LET i == Count(st.S.at) + 1
      j == Count(st.S.rt) + 1
      atRow == [rid |-> rid, client |-> client, scopes |-> scopes, aud |-> aud, sub |-> sub,
                exp |-> st.now + st.cfg.l_at, via |-> "token", present |-> TRUE, why |-> "", ep |-> st.nep + 1, dl |-> TRUE]
      rtRow == [rid |-> rid, client |-> client, req |-> req, scopes |-> scopes, aud |-> aud, sub |-> sub,
                exp |-> IF st.cfg.l_rt < 0 THEN -1 ELSE st.now + st.cfg.l_rt,
                active |-> TRUE, present |-> TRUE, why |-> "", ep |-> st.nep + 1, dl |-> TRUE]
      S1 == CreateAccessTokenSession(st.S, i, atRow)
      S2 == IF withRT THEN CreateRefreshTokenSession(S1, j, rtRow) ELSE S1
  IN [S |-> S2, at |-> i, rt |-> IF withRT THEN j ELSE 0]

DoRedeem(st, op) ==
  LET k == op.code
      ae == AuthErr(op)
  IN
  IF ae # "ok" THEN Fail(st, ae, AuthReason(op))
  ELSE IF "authorization_code" \notin st.reg[op.client].grants THEN Fail(st, "unauthorized_client", "grant_type_not_allowed")
  ELSE LET g == IF Has(st.S.code, k) /\ ~st.S.code[k].dl THEN "not_found" ELSE GetAuthorizeCodeSession(st.S, k) IN
  IF g = "not_found" THEN Fail(st, "invalid_grant", "code_unknown")
  ELSE LET row == st.S.code[k] IN
  IF g = "invalidated"
  THEN \* replay: revoke the access and refresh tokens of the grant, answer invalid_grant
       LET S1 == RevokeAccessToken(st.S, row.rid, "replay")
           S2 == RevokeRefreshToken(S1, row.rid, "replay")
       IN Fail([st EXCEPT !.S = S2, !.replayed = @ \cup {k}], "invalid_grant", "code_used")
  ELSE IF row.client # op.client THEN Fail(st, "invalid_grant", "wrong_client")
  ELSE IF row.redir /\ op.redir # "same" THEN Fail(st, "invalid_grant", "redirect_mismatch")
  ELSE LET pe == PkceTokenErr(st, op, k) IN
  IF pe[1] # "ok" THEN Fail(st, pe[1], pe[2])
  ELSE \* second phase (NewAccessResponse)
  IF st.now > row.exp THEN Fail(st, "invalid_request", "code_expired")
  ELSE LET withRT == CanIssueRT(st, row.scopes, row.client)
           np == NewPair(st, row.rid, row.client, row.req, row.scopes, row.aud, Subject, withRT, 0)
           S1 == InvalidateAuthorizeCodeSession(np.S, k)
           S2 == IF k \in S1.oidc THEN DeleteOpenIDConnectSession(S1, k) ELSE S1
           S3 == DeletePKCERequestSession(S2, k)
       IN Ret([st EXCEPT !.S = S3, !.nep = @ + 1],
              [Out0 EXCEPT !.at = np.at, !.rt = np.rt, !.expin = st.cfg.l_at, !.idt = k \in st.S.oidc])

(* ======================================================================== *)
(* Token endpoint: refresh_token                                            *)
(* ======================================================================== *)
DoRefresh(st, op) ==
  LET j == op.tok
      ae == AuthErr(op)
  IN
  IF ae # "ok" THEN Fail(st, ae, AuthReason(op))
  ELSE IF "refresh_token" \notin st.reg[op.client].grants THEN Fail(st, "unauthorized_client", "grant_type_not_allowed")
  ELSE LET g == IF Has(st.S.rt, j) /\ ~st.S.rt[j].dl THEN "not_found" ELSE GetRefreshTokenSession(st.S, j) IN
  IF g = "not_found" THEN Fail(st, "invalid_grant", "rt_unknown")
  ELSE LET row == st.S.rt[j] IN
  IF g = "inactive"
  THEN \* reuse detection: delete the presented token, revoke the newest pair of the grant
       LET S1 == DeleteRefreshTokenSession(st.S, j, "reuse")
           S2 == RevokeRefreshToken(S1, row.rid, "reuse")
           S3 == RevokeAccessToken(S2, row.rid, "reuse")
       IN Fail([st EXCEPT !.S = S3, !.reused = @ \cup {row.rid}], "invalid_grant", "rt_used")
  ELSE IF row.exp # -1 /\ st.now > row.exp THEN Fail(st, "invalid_grant", "rt_expired")
  ELSE IF ~(RScopes(st) = {} \/ row.scopes \cap RScopes(st) # {}) THEN Fail(st, "scope_not_granted", "rt_scope_missing")
  ELSE IF row.client # op.client THEN Fail(st, "invalid_grant", "rt_wrong_client")
  ELSE IF ~(row.scopes \subseteq st.reg[op.client].scopes) THEN Fail(st, "invalid_scope", "rt_scope_lost")
  ELSE IF ~(row.aud \subseteq st.reg[op.client].aud) THEN Fail(st, "invalid_request", "rt_aud_lost")
  ELSE LET S0 == RotateRefreshToken(st.S, row.rid)
           np == NewPair([st EXCEPT !.S = S0], row.rid, row.client, row.req, row.scopes, row.aud, row.sub, TRUE, 0)
       IN Ret([st EXCEPT !.S = np.S, !.nep = @ + 1],
              [Out0 EXCEPT !.at = np.at, !.rt = np.rt, !.expin = st.cfg.l_at, !.idt = "openid" \in row.scopes])

(* ======================================================================== *)
(* Token endpoint: client_credentials, password                             *)
(* ======================================================================== *)
DoClientCreds(st, op) ==
  LET ae == AuthErr(op)
      req == Range(op.scopes)
      aud == Range(op.aud)
      reg == st.reg[op.client]
      rid == st.nrid + 1
      i == Count(st.S.at) + 1
  IN
  IF ae # "ok" THEN Fail(st, ae, AuthReason(op))
  ELSE IF ~(req \subseteq reg.scopes) THEN Fail(st, "invalid_scope", "scope_not_allowed")
  ELSE IF ~(aud \subseteq reg.aud) THEN Fail(st, "invalid_request", "aud_not_allowed")
  ELSE IF Public(op.client) THEN Fail(st, "invalid_grant", "public_client_credentials")
  ELSE IF "client_credentials" \notin reg.grants THEN Fail(st, "unauthorized_client", "grant_type_not_allowed")
  ELSE Ret([st EXCEPT !.nrid = rid, !.nep = @ + 1,
                      !.S = CreateAccessTokenSession(st.S, i,
                              [rid |-> rid, client |-> op.client, scopes |-> req, aud |-> aud, sub |-> Subject,
                               exp |-> st.now + st.cfg.l_at, via |-> "token", present |-> TRUE, why |-> "", ep |-> st.nep + 1, dl |-> TRUE])],
           [Out0 EXCEPT !.at = i, !.expin = st.cfg.l_at])

DoPassword(st, op) ==
  LET ae == AuthErr(op)
      req == Range(op.scopes)
      aud == Range(op.aud)
      reg == st.reg[op.client]
      rid == st.nrid + 1
  IN
  IF ae # "ok" THEN Fail(st, ae, AuthReason(op))
  ELSE IF "password" \notin reg.grants THEN Fail(st, "unauthorized_client", "grant_type_not_allowed")
  ELSE IF ~(req \subseteq reg.scopes) THEN Fail(st, "invalid_scope", "scope_not_allowed")
  ELSE IF ~(aud \subseteq reg.aud) THEN Fail(st, "invalid_request", "aud_not_allowed")
  ELSE IF op.user # "ok" THEN Fail(st, "invalid_grant", "bad_user_credentials")
  ELSE LET granted == IF "grant" \in DOMAIN op THEN Range(op.grant) \cap req ELSE req     \* what the application grants of the request
           withRT == RScopes(st) = {} \/ granted \cap RScopes(st) # {}
           np == NewPair(st, rid, op.client, req, granted, aud, "uuid", withRT, 0)
       IN Ret([st EXCEPT !.nrid = rid, !.S = np.S, !.nep = @ + 1],
              [Out0 EXCEPT !.at = np.at, !.rt = np.rt, !.expin = st.cfg.l_at])

(* ======================================================================== *)
(* JWT-bearer grant (RFC 7523) by an issuer whose key is registered, without client authentication: an access token  *)
(* that belongs to NO client (the step-level model of the same request is AssertionStep in Steps.tla)                *)
(* ======================================================================== *)
DoJBearer(st, op) ==
  IF JTIKnown(st.S, op.val) THEN Fail(st, "jti_known", "jti_replayed")
  ELSE LET i == Count(st.S.at) + 1
           row == [rid |-> st.nrid + 1, client |-> "", scopes |-> {"a"}, aud |-> {"https://issuer.example/token"}, sub |-> "sub-1",
                   exp |-> st.now + st.cfg.l_at, via |-> "token", present |-> TRUE, why |-> "", ep |-> st.nep + 1, dl |-> TRUE]
       IN Ret([st EXCEPT !.S = CreateAccessTokenSession(MarkJTI(st.S, op.val), i, row), !.nrid = @ + 1, !.nep = @ + 1],
              [Out0 EXCEPT !.at = i, !.expin = st.cfg.l_at])

(* ======================================================================== *)
(* Revocation endpoint                                                      *)
(* ======================================================================== *)
DoRevoke(st, op) ==
  LET ae == AuthErr(op)
      \* token discovery: the hint only orders the two lookups
      isRT == op.kind = "rt" /\ Has(st.S.rt, op.tok) /\ st.S.rt[op.tok].present /\ st.S.rt[op.tok].dl
      isAT == op.kind = "at" /\ Has(st.S.at, op.tok) /\ st.S.at[op.tok].present /\ st.S.at[op.tok].dl
  IN
  IF ae # "ok" THEN Fail(st, ae, AuthReason(op))
  ELSE IF isRT /\ ~st.S.rt[op.tok].active THEN Fail(st, "ok", "revoke_already_inactive")   \* ErrInactiveToken => success
  ELSE IF ~isRT /\ ~isAT THEN Fail(st, "ok", "revoke_unknown")                               \* not found => success
  ELSE LET row == IF isRT THEN st.S.rt[op.tok] ELSE st.S.at[op.tok] IN
  IF row.client # op.client THEN Fail(st, "unauthorized_client", "revoke_foreign_client")
  ELSE LET S1 == RevokeRefreshToken(st.S, row.rid, "revoked")
           S2 == RevokeAccessToken(S1, row.rid, "revoked")
           sib == {<<"at", i>> : i \in {x \in DOMAIN st.S.at : st.S.at[x].ep = row.ep /\ st.S.at[x].rid = row.rid}}
                  \cup {<<"rt", j>> : j \in {x \in DOMAIN st.S.rt : st.S.rt[x].ep = row.ep /\ st.S.rt[x].rid = row.rid}}
       IN Ret([st EXCEPT !.S = S2, !.revoked = @ \cup sib \cup {<<op.kind, op.tok>>}], Out0)

(* ======================================================================== *)
(* Introspection endpoint (caller authentication + verdict)                 *)
(* ======================================================================== *)
Covers(granted, need) == need \subseteq granted     \* exact strategy on the stateful alphabet
IntrospectVerdict(st, kind, tok, need) ==            \* hint never changes the verdict
  IF kind = "at" THEN (IF ATActive(st, tok) /\ st.S.at[tok].dl /\ Covers(st.S.at[tok].scopes, need) THEN "active" ELSE "inactive")
  ELSE IF kind = "rt" THEN (IF ~st.cfg.no_rt_intro /\ RTActive(st, tok) /\ st.S.rt[tok].dl /\ Covers(st.S.rt[tok].scopes, need) THEN "active" ELSE "inactive")
  ELSE "inactive"
DoIntrospect(st, op) ==
  LET callerOK ==
        CASE op.caller = "basic" -> ~Public(op.client)
          [] op.caller = "bearer" -> ATActive(st, op.n) /\ ~(op.kind = "at" /\ op.tok = op.n)
          [] op.caller = "bearer_rt" -> FALSE    \* a refresh token is not a credential for this endpoint, however alive it is
          [] OTHER -> FALSE
      v == IntrospectVerdict(st, op.kind, op.tok, Range(op.need))
  IN IF ~callerOK THEN Fail(st, "request_unauthorized", "introspect_caller_unauthenticated")
     ELSE IF v = "active"
          THEN \* what is reported is the inspected token's own kind, client, subject and scope -- whatever the hint, whoever the caller
               LET row == IF op.kind = "at" THEN st.S.at[op.tok] ELSE st.S.rt[op.tok] IN
               Ret(st, [Out0 EXCEPT !.res = "active", !.note = "use=" \o op.kind \o "|" \o row.client \o "|" \o row.sub \o "|" \o JoinScopes(row.scopes)])
     ELSE Ret(st, [Out0 EXCEPT !.res = v, !.reason = "introspect_inactive", !.note = "bare"])      \* nothing but active=false

(* ======================================================================== *)
(* Device authorization grant                                               *)
(* ======================================================================== *)
DoDevStart(st, op) ==
  LET ae == AuthErr(op)
      req == Range(op.scopes)
      aud == Range(op.aud)
      reg == st.reg[op.client]
      rid == st.nrid + 1
      d == Count(st.S.dev) + 1
  IN
  IF ae # "ok" THEN Fail(st, ae, AuthReason(op))
  ELSE IF GDevice \notin reg.grants THEN Fail(st, "invalid_grant", "grant_type_not_allowed")
  ELSE IF ~(req \subseteq reg.scopes) THEN Fail(st, "invalid_scope", "scope_not_allowed")
  ELSE IF ~(aud \subseteq reg.aud) THEN Fail(st, "invalid_request", "aud_not_allowed")
  ELSE Ret([st EXCEPT !.nrid = rid,
                      !.S = CreateDeviceAuthSession(st.S, d,
                              [client |-> op.client, rid |-> rid, req |-> req, scopes |-> Range(op.grant) \cap req,
                               aud |-> aud, exp |-> st.now + st.cfg.l_dev, ustate |-> "unused", fresh |-> FALSE,
                               present |-> TRUE, inval |-> FALSE, dl |-> TRUE])],
           [Out0 EXCEPT !.dev = d, !.expin = st.cfg.l_dev])

(* "accept_fresh": the consent application approves and REPLACES the session of the stored request by a fresh one
   (no expiry recorded in it): the lifetime of the codes must not depend on what the session remembers *)
\* "accept_user_later": the consent application approves and extends the expiry of the USER code in the session; the
\* device code expires when it always did
Accepts(dec) == dec \in {"accept", "accept_fresh", "accept_user_later"}
DoDevDecide(st, op) ==
  IF ~Has(st.S.dev, op.dev) THEN Fail(st, "not_found", "dev_unknown")
  ELSE LET row == st.S.dev[op.dev] IN
  IF st.now > row.exp THEN Fail(st, "expired_token", "usercode_expired")
  ELSE LET S1 == [st.S EXCEPT !.dev[op.dev].ustate = IF Accepts(op.dec) THEN "accepted" ELSE "rejected",
                            \* whether the consent application replaced the session is part of the state (a request that
                            \* lost its session's expiry must expire all the same): both variants get their own witnesses
                            !.dev[op.dev].fresh = (op.dec = "accept_fresh")]
           S2 == IF Accepts(op.dec) /\ "openid" \in row.scopes THEN [S1 EXCEPT !.doidc = @ \cup {op.dev}] ELSE S1
       IN Ret([st EXCEPT !.S = S2], Out0)

DoDevPoll(st, op) ==
  LET d == op.dev
      ae == AuthErr(op)
      contract == st.cfg.store = "contract"
  IN
  IF ae # "ok" THEN Fail(st, ae, AuthReason(op))
  ELSE IF GDevice \notin st.reg[op.client].grants THEN Fail(st, "unauthorized_client", "grant_type_not_allowed")
  ELSE LET g == GetDeviceCodeSession(st.S, d, contract) IN
  IF g = "not_found" THEN Fail(st, "invalid_grant", IF Has(st.S.dev, d) THEN "dev_used" ELSE "dev_unknown")
  ELSE LET row == st.S.dev[d] IN
  IF g = "invalidated"
  THEN LET S1 == RevokeAccessToken(st.S, row.rid, "replay")
           S2 == RevokeRefreshToken(S1, row.rid, "replay")
       IN Fail([st EXCEPT !.S = S2, !.devused = @ \cup {d}], "invalid_grant", "dev_used")
  ELSE IF row.ustate = "unused" THEN Fail(st, "authorization_pending", "dev_pending")
  ELSE IF row.ustate = "rejected" THEN Fail(st, "access_denied", "dev_denied")
  ELSE IF st.now > row.exp THEN Fail(st, "expired_token", "dev_expired")
  \* the store is keyed by the signature, so a code forged from it finds the session; only the strategy's validation of the
  \* complete code (the HMAC over its key part) tells it from the genuine one
  \* (error names as the strategy reports them: a malformed token, resp. an undecodable key part; the statement says "refused")
  ELSE IF "forge" \in DOMAIN op THEN Fail(st, IF op.forge = "sig_only" THEN "invalid_token" ELSE "error", "dev_forged")
  ELSE IF row.client # op.client THEN Fail(st, "invalid_grant", "dev_wrong_client")
  ELSE LET withRT == CanIssueRT(st, row.scopes, op.client)
           np == NewPair(st, row.rid, row.client, row.req, row.scopes, row.aud, Subject, withRT, 0)
           S1 == InvalidateDeviceCodeSession(np.S, d)
           S2 == [S1 EXCEPT !.doidc = @ \ {d}]
       IN Ret([st EXCEPT !.S = S2, !.nep = @ + 1],
              [Out0 EXCEPT !.at = np.at, !.rt = np.rt, !.expin = st.cfg.l_at, !.idt = d \in st.S.doidc])

(* ======================================================================== *)
(* Pushed authorization requests                                            *)
(* ======================================================================== *)
DoPush(st, op) ==
  LET req == Range(op.scopes)
      aud == Range(op.aud)
      u == Count(st.S.par) + 1
      e == AuthzRequestErr(st, op.client, req, aud, op.redir = "sent")
  IN
  IF AuthErr(op) # "ok" THEN Fail(st, "invalid_client", AuthReason(op))
  ELSE IF op.field = "request_uri" THEN Fail(st, "invalid_request", "par_contains_request_uri")
  ELSE IF e[1] # "ok" THEN Fail(st, e[1], e[2])
  ELSE Ret([st EXCEPT !.S = CreatePARSession(st.S, u,
                 [client |-> op.client, exp |-> st.now + st.cfg.l_par, present |-> TRUE, rtype |-> op.rtype,
                  req |-> req, aud |-> aud, redirSent |-> op.redir = "sent", dl |-> TRUE])],
           [Out0 EXCEPT !.par = u, !.expin = st.cfg.l_par])

DoUsePar(st, op) ==
  \* foreign_prefix_full: a request_uri that is not a pushed one NEXT TO a complete plain request (the foreign URI is not this
  \* endpoint's business for a non-OpenID request): a plain request, refused when pushing is enforced
  IF op.kind \in {"absent", "foreign_prefix", "foreign_prefix_full"}
  THEN IF st.cfg.par_enf THEN Fail(st, "invalid_request", "par_enforced")
       ELSE IF op.kind \in {"absent", "foreign_prefix_full"}
            THEN HandlerPhase(st, [client |-> op.client, rtype |-> "code", req |-> {"a"}, grant |-> {"a"}, aud |-> {},
                                   redirSent |-> TRUE, pkce |-> "none"])
            ELSE Fail(st, "unsupported_response_type", "response_type_missing")
  ELSE IF op.kind = "unknown" \/ GetPARSession(st.S, op.par) # "ok" THEN Fail(st, "invalid_request_uri", "par_unknown_or_used")
  ELSE LET row == st.S.par[op.par] IN
  IF st.now > row.exp THEN Fail(st, "invalid_request_uri", "par_expired")
  ELSE LET st1 == [st EXCEPT !.S = DeletePARSession(st.S, op.par)] IN
  IF row.client # op.client THEN Fail(st1, "invalid_request", "par_wrong_client")
  ELSE LET r == HandlerPhase(st1, [client |-> row.client, rtype |-> row.rtype, req |-> row.req, grant |-> row.req,
                                   aud |-> row.aud, redirSent |-> row.redirSent, pkce |-> "none"])
           note == RedirectOf(row.client) \o "|" \o RTypeSorted(row.rtype) \o "|" \o JoinScopes(row.req) \o "|"
                   \o PushedState \o "|" \o JoinAud(row.aud) \o "|"
                   \o (IF row.rtype = "code" THEN "query" ELSE "fragment")     \* no mode was pushed: the default of the pushed response type
                   \o "|" \o PushedNonce \o "|"                                 \* the raw form is the pushed one: its nonce, no PKCE challenge
       IN Ret(r.st, [r.out EXCEPT !.note = note])

(* ======================================================================== *)
(* Environment: clock, client registration changes                          *)
(* ======================================================================== *)
DoTick(st, op) == Ret([st EXCEPT !.now = @ + (IF op.n <= 0 THEN 1 ELSE op.n)], Out0)

DoClientChange(st, op) ==
  LET c == op.client IN
  Ret([st EXCEPT !.reg[c] =
         CASE op.field = "rm_scope" -> [@ EXCEPT !.scopes = @ \ {op.val}]
           [] op.field = "rm_aud"   -> [@ EXCEPT !.aud = IF op.val = "*" THEN {} ELSE @ \ {op.val}]   \* "*": the whole allow-list goes
           [] op.field = "rm_grant" -> [@ EXCEPT !.grants = @ \ {op.val}]
           [] OTHER -> InitReg[c]], Out0)

Apply(st, op) ==
  CASE op.op = "authorize"    -> DoAuthorize(st, op)
    [] op.op = "redeem"       -> DoRedeem(st, op)
    [] op.op = "refresh"      -> DoRefresh(st, op)
    [] op.op = "revoke"       -> DoRevoke(st, op)
    [] op.op = "introspect"   -> DoIntrospect(st, op)
    [] op.op = "ccreds"       -> DoClientCreds(st, op)
    [] op.op = "password"     -> DoPassword(st, op)
    [] op.op = "devstart"     -> DoDevStart(st, op)
    [] op.op = "devdecide"    -> DoDevDecide(st, op)
    [] op.op = "devpoll"      -> DoDevPoll(st, op)
    [] op.op = "jbearer"      -> DoJBearer(st, op)
    [] op.op = "push"         -> DoPush(st, op)
    [] op.op = "usepar"       -> DoUsePar(st, op)
    [] op.op = "tick"         -> DoTick(st, op)
    [] op.op = "clientchange" -> DoClientChange(st, op)
    [] OTHER                  -> Ret(st, Out0)

(* ======================================================================== *)
(* Observations: introspection probe and store projection                   *)
(* ======================================================================== *)
ProbeAT(st) == { [id |-> i, client |-> st.S.at[i].client, sub |-> st.S.at[i].sub, scopes |-> st.S.at[i].scopes,
                  aud |-> st.S.at[i].aud, exp |-> st.S.at[i].exp] : i \in {x \in DOMAIN st.S.at : ATActive(st, x) /\ st.S.at[x].dl} }
ProbeRT(st) == IF st.cfg.no_rt_intro THEN {} ELSE
               { [id |-> j, client |-> st.S.rt[j].client, sub |-> st.S.rt[j].sub, scopes |-> st.S.rt[j].scopes,
                  aud |-> st.S.rt[j].aud, exp |-> 0] : j \in {x \in DOMAIN st.S.rt : RTActive(st, x) /\ st.S.rt[x].dl} }

Projection(st) ==
  LET S == st.S IN
  [ code_active   |-> {k \in DOMAIN S.code : S.code[k].active},
    code_inactive |-> {k \in DOMAIN S.code : ~S.code[k].active},
    at            |-> {i \in DOMAIN S.at : S.at[i].present},
    rt_active     |-> {j \in DOMAIN S.rt : S.rt[j].present /\ S.rt[j].active},
    rt_inactive   |-> {j \in DOMAIN S.rt : S.rt[j].present /\ ~S.rt[j].active},
    pkce          |-> {k \in DOMAIN S.pkce : S.pkce[k].present},
    oidc          |-> S.oidc,
    dev           |-> {d \in DOMAIN S.dev : S.dev[d].present},
    par           |-> {u \in DOMAIN S.par : S.par[u].present},
    n_at          |-> Cardinality({i \in DOMAIN S.at : S.at[i].present}),
    n_rt          |-> Cardinality({j \in DOMAIN S.rt : S.rt[j].present}),
    n_code        |-> Count(S.code),
    n_pkce        |-> Cardinality({k \in DOMAIN S.pkce : S.pkce[k].present}),
    n_oidc        |-> Cardinality(S.oidc) + Cardinality(S.doidc),
    n_par         |-> Cardinality({u \in DOMAIN S.par : S.par[u].present}),
    n_jti         |-> Cardinality(S.jti) ]

(* ======================================================================== *)
(* Property predicates.  State invariants range over one state; the action  *)
(* properties Step*(st, op, r) relate a state, an operation and its result   *)
(* r = Apply(st, op).  MCGrants checks them in every reachable state of the  *)
(* bounded design; TraceGrants evaluates them at every step of every trace   *)
(* recorded from the implementation.                                         *)
(* ======================================================================== *)
TokenEndpointAT(st, rid) == {i \in DOMAIN st.S.at : st.S.at[i].rid = rid /\ st.S.at[i].via = "token"}
FamilyRT(st, rid) == {j \in DOMAIN st.S.rt : st.S.rt[j].rid = rid}

(* C01 *)
ReplayKillsFamily(st) ==
  \A k \in st.replayed :
     /\ \A i \in TokenEndpointAT(st, st.S.code[k].rid) : ~ATActive(st, i)
     /\ \A j \in FamilyRT(st, st.S.code[k].rid) : ~RTActive(st, j)
StepCodeOnce(st, op, r) ==
  op.op = "redeem" /\ r.out.res = "ok" => /\ Has(st.S.code, op.code) /\ st.S.code[op.code].active
                                          /\ ~r.st.S.code[op.code].active
StepReplayRefused(st, op, r) ==
  (op.op = "redeem" /\ Has(st.S.code, op.code) /\ ~st.S.code[op.code].active /\ st.S.code[op.code].dl)
     => /\ r.out.res # "ok" /\ r.out.at = 0 /\ r.out.rt = 0
        /\ (AuthErr(op) = "ok" /\ "authorization_code" \in st.reg[op.client].grants => r.out.res = "invalid_grant")

(* C02 *)
StepRedeemGuard(st, op, r) ==
  op.op = "redeem" /\ r.out.res = "ok" =>
     LET row == st.S.code[op.code] IN
     /\ row.client = op.client /\ AuthErr(op) = "ok"
     /\ (row.redir => op.redir = "same")
     /\ st.now <= row.exp
     /\ r.st.S.at[r.out.at].scopes = row.scopes /\ r.st.S.at[r.out.at].aud = row.aud
     /\ (r.out.rt # 0 => r.st.S.rt[r.out.rt].scopes = row.scopes /\ r.st.S.rt[r.out.rt].aud = row.aud)
StepFailedRedeemInert(st, op, r) ==
  (op.op = "redeem" /\ r.out.res # "ok" /\ r.out.reason # "code_used") => r.st.S = st.S

(* C03 *)
StepPkceGuard(st, op, r) ==
  (op.op = "redeem" /\ r.out.res = "ok") =>
     /\ (HasPKCE(st.S, op.code) => op.ver = "right" /\ st.S.pkce[op.code].method \notin IllMethods)
     /\ (~HasPKCE(st.S, op.code) => ~(st.cfg.pkce_all \/ (st.cfg.pkce_pub /\ Public(op.client))))
PkceBindingStable(st) ==     \* a challenge stays bound to its code for as long as the code is redeemable
  \A k \in DOMAIN st.S.pkce : st.S.code[k].active => st.S.pkce[k].present

(* C04 *)
StepRefreshOnce(st, op, r) ==
  (op.op = "refresh" /\ r.out.res = "ok") =>
     /\ RTActive(st, op.tok) /\ ~RTActive(r.st, op.tok)
     /\ r.out.at # 0 /\ r.out.rt # 0 /\ ATActive(r.st, r.out.at) /\ RTActive(r.st, r.out.rt)
     /\ \A i \in DOMAIN st.S.at : (st.S.at[i].ep = st.S.rt[op.tok].ep /\ st.S.at[i].rid = st.S.rt[op.tok].rid) => ~ATActive(r.st, i)
ReuseKillsFamily(st) ==
  \A rid \in st.reused :
     /\ \A i \in TokenEndpointAT(st, rid) : ~ATActive(st, i)
     /\ \A j \in FamilyRT(st, rid) : ~RTActive(st, j)
StepReuseRefused(st, op, r) ==
  (op.op = "refresh" /\ AuthErr(op) = "ok" /\ "refresh_token" \in st.reg[op.client].grants
     /\ Has(st.S.rt, op.tok) /\ st.S.rt[op.tok].present /\ ~st.S.rt[op.tok].active /\ st.S.rt[op.tok].dl)
     => r.out.res = "invalid_grant" /\ st.S.rt[op.tok].rid \in r.st.reused
Touched(st, op) ==      \* request ids (grants) an operation may legitimately affect
  CASE op.op = "redeem" /\ Has(st.S.code, op.code) -> {st.S.code[op.code].rid}
    [] op.op = "refresh" /\ Has(st.S.rt, op.tok) -> {st.S.rt[op.tok].rid}
    [] op.op = "revoke" /\ op.kind = "rt" /\ Has(st.S.rt, op.tok) -> {st.S.rt[op.tok].rid}
    [] op.op = "revoke" /\ op.kind = "at" /\ Has(st.S.at, op.tok) -> {st.S.at[op.tok].rid}
    [] op.op = "devpoll" /\ Has(st.S.dev, op.dev) -> {st.S.dev[op.dev].rid}
    [] OTHER -> {}
StepFamilyIsolation(st, op, r) ==     \* an operation on one grant leaves every other grant's tokens alone
  LET touched == Touched(st, op)
  IN op.op \in {"redeem", "refresh", "revoke", "devpoll"} =>
       /\ \A i \in DOMAIN st.S.at : st.S.at[i].rid \notin touched => r.st.S.at[i] = st.S.at[i]
       /\ \A j \in DOMAIN st.S.rt : st.S.rt[j].rid \notin touched => r.st.S.rt[j] = st.S.rt[j]

(* C05 *)
StepRefreshGuard(st, op, r) ==
  (op.op = "refresh" /\ r.out.res = "ok") =>
     LET row == st.S.rt[op.tok] IN
     /\ row.client = op.client /\ AuthErr(op) = "ok" /\ "refresh_token" \in st.reg[op.client].grants
     /\ row.scopes \subseteq st.reg[op.client].scopes /\ row.aud \subseteq st.reg[op.client].aud
     /\ r.st.S.at[r.out.at].scopes = row.scopes /\ r.st.S.at[r.out.at].aud = row.aud /\ r.st.S.at[r.out.at].sub = row.sub
     /\ r.st.S.rt[r.out.rt].scopes = row.scopes /\ r.st.S.rt[r.out.rt].aud = row.aud /\ r.st.S.rt[r.out.rt].sub = row.sub
StepRtIssuanceRule(st, op, r) ==
  r.out.rt # 0 =>
     /\ (RScopes(st) = {} \/ r.st.S.rt[r.out.rt].scopes \cap RScopes(st) # {})
     /\ (op.op \in {"redeem", "devpoll", "refresh"} => "refresh_token" \in st.reg[r.st.S.rt[r.out.rt].client].grants)

(* C07 *)
NothingAfterExpiry(st) ==
  /\ \A i \in DOMAIN st.S.at : ATActive(st, i) => st.now <= st.S.at[i].exp
  /\ \A j \in DOMAIN st.S.rt : RTActive(st, j) => (st.S.rt[j].exp = -1 \/ st.now <= st.S.rt[j].exp)
StepExpiryRespected(st, op, r) ==
  /\ (op.op = "redeem" /\ r.out.res = "ok" => st.now <= st.S.code[op.code].exp)
  /\ (op.op = "refresh" /\ r.out.res = "ok" => (st.S.rt[op.tok].exp = -1 \/ st.now <= st.S.rt[op.tok].exp))
  /\ (op.op = "devpoll" /\ r.out.res = "ok" => st.now <= st.S.dev[op.dev].exp)
  /\ (op.op = "usepar" /\ op.kind = "own" /\ r.out.res = "ok" => st.now <= st.S.par[op.par].exp)
  /\ (r.out.at # 0 /\ r.out.expin # -1 => r.st.S.at[r.out.at].exp = st.now + r.out.expin)

(* C08 *)
RevokeEffective(st) ==
  \A t \in st.revoked : IF t[1] = "at" THEN ~ATActive(st, t[2]) ELSE ~RTActive(st, t[2])
StepRevokeOwnerOnly(st, op, r) ==
  op.op = "revoke" =>
     LET known == (op.kind = "rt" /\ Has(st.S.rt, op.tok) /\ st.S.rt[op.tok].present /\ st.S.rt[op.tok].active /\ st.S.rt[op.tok].dl)
                  \/ (op.kind = "at" /\ Has(st.S.at, op.tok) /\ st.S.at[op.tok].present /\ st.S.at[op.tok].dl)
         owner == IF op.kind = "rt" THEN st.S.rt[op.tok].client ELSE st.S.at[op.tok].client
     IN /\ (AuthErr(op) # "ok" => r.st.S = st.S /\ r.out.res # "ok")
        /\ (AuthErr(op) = "ok" /\ known /\ owner # op.client => r.st.S = st.S /\ r.out.res = "unauthorized_client")
        /\ (AuthErr(op) = "ok" /\ ~known => r.st.S = st.S /\ r.out.res = "ok")
        /\ (AuthErr(op) = "ok" /\ known /\ owner = op.client => r.out.res = "ok")

(* C16 *)
StepDeviceGuard(st, op, r) ==
  op.op = "devpoll" /\ r.out.res = "ok" =>
     LET row == st.S.dev[op.dev] IN
     row.ustate = "accepted" /\ row.client = op.client /\ st.now <= row.exp /\ row.present /\ ~row.inval
DeviceOnce(st) == \A d \in DOMAIN st.S.dev : st.S.dev[d].inval => ~st.S.dev[d].present
DeviceReplayRevokes(st) ==
  \A d \in st.devused :
     /\ \A i \in DOMAIN st.S.at : st.S.at[i].rid = st.S.dev[d].rid => ~ATActive(st, i)
     /\ \A j \in FamilyRT(st, st.S.dev[d].rid) : ~RTActive(st, j)

(* C17 *)
StepParGuard(st, op, r) ==
  (op.op = "usepar" /\ op.kind = "own" /\ r.out.res = "ok") =>
     LET row == st.S.par[op.par] IN
     row.present /\ row.client = op.client /\ st.now <= row.exp /\ ~r.st.S.par[op.par].present
StepParEnforced(st, op, r) ==
  (st.cfg.par_enf /\ (op.op = "authorize" \/ (op.op = "usepar" /\ op.kind # "own"))) => r.out.res # "ok" /\ r.st.S = st.S

(* C12 confinement (stateful half): tokens never carry what the registration does not cover *)
StepConfinement(st, op, r) ==
  /\ (r.out.at # 0 => LET row == r.st.S.at[r.out.at] IN
        op.op \in {"authorize", "ccreds", "password", "usepar"} => row.scopes \subseteq st.reg[row.client].scopes /\ row.aud \subseteq st.reg[row.client].aud)
  /\ (r.out.code # 0 => LET row == r.st.S.code[r.out.code] IN row.scopes \subseteq st.reg[row.client].scopes /\ row.aud \subseteq st.reg[row.client].aud)

StatePreds(st) ==
  << <<"C01.ReplayKillsFamily", ReplayKillsFamily(st)>>, <<"C04.ReuseKillsFamily", ReuseKillsFamily(st)>>,
     <<"C08.RevokeEffective", RevokeEffective(st)>>, <<"C07.NothingAfterExpiry", NothingAfterExpiry(st)>>,
     <<"C03.PkceBindingStable", PkceBindingStable(st)>>, <<"C16.DeviceOnce", DeviceOnce(st)>>,
     <<"C16.DeviceReplayRevokes", DeviceReplayRevokes(st)>> >>
StepPreds(st, op, r) ==
  << <<"C01.StepCodeOnce", StepCodeOnce(st, op, r)>>, <<"C01.StepReplayRefused", StepReplayRefused(st, op, r)>>,
     <<"C02.StepRedeemGuard", StepRedeemGuard(st, op, r)>>, <<"C02.StepFailedRedeemInert", StepFailedRedeemInert(st, op, r)>>,
     <<"C03.StepPkceGuard", StepPkceGuard(st, op, r)>>, <<"C04.StepRefreshOnce", StepRefreshOnce(st, op, r)>>,
     <<"C04.StepReuseRefused", StepReuseRefused(st, op, r)>>, <<"C04.StepFamilyIsolation", StepFamilyIsolation(st, op, r)>>,
     <<"C05.StepRefreshGuard", StepRefreshGuard(st, op, r)>>, <<"C05.StepRtIssuanceRule", StepRtIssuanceRule(st, op, r)>>,
     <<"C07.StepExpiryRespected", StepExpiryRespected(st, op, r)>>, <<"C08.StepRevokeOwnerOnly", StepRevokeOwnerOnly(st, op, r)>>,
     <<"C16.StepDeviceGuard", StepDeviceGuard(st, op, r)>>, <<"C17.StepParGuard", StepParGuard(st, op, r)>>,
     <<"C17.StepParEnforced", StepParEnforced(st, op, r)>>, <<"C12.StepConfinement", StepConfinement(st, op, r)>> >>
FailedState(st) == {p[1] : p \in {q \in Range(StatePreds(st)) : ~q[2]}}
FailedStep(st, op, r) == {p[1] : p \in {q \in Range(StepPreds(st, op, r)) : ~q[2]}}
StateInvariant(st) == FailedState(st) = {}
StepInvariant(st, op, r) == FailedStep(st, op, r) = {}
=============================================================================
