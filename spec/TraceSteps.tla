------------------------------ MODULE TraceSteps ------------------------------
(***************************************************************************)
(* Trace validation of concurrent and fault-injected executions.            *)
(* Extends TraceGrants (sequential "op" lines are handled there) with the   *)
(* lines the storage gate of the harness records:                           *)
(*   start : a request was launched and is parked before its first call     *)
(*   step  : the scheduler released request p for exactly one storage call  *)
(*           (optionally injecting error kind f)                            *)
(*   join  : every request has returned; all tokens are probed              *)
(* Each step must be explained by PStep of Steps.tla: the storage method    *)
(* the real handler called is the one the specification's pc names, the     *)
(* store projection after the call equals the specification's S (the call   *)
(* had exactly its atomic effect), and a finished request returned the      *)
(* specified result.  Independently of the specification, predicates that   *)
(* need only the observation are evaluated on it (C18: tokens on failure,   *)
(* balance of begin/commit/rollback, records restored after rollback,       *)
(* fail-closed; C19: a value handed out twice).                             *)
(***************************************************************************)
EXTENDS TraceGrants, Steps

VARIABLES procs, snap, open, txlog, proj0, act0, fpc

svars == <<procs, snap, open, txlog, proj0, act0, fpc>>

GG == [st |-> st, snap |-> snap, open |-> open, txlog |-> txlog]

SInit == /\ TInit /\ procs = <<>> /\ snap = <<>> /\ open = FALSE /\ txlog = <<>> /\ proj0 = <<>> /\ act0 = {} /\ fpc = "none"

ObsProj2(e) == ObsProj(e)
ObsActive(e) == {<<"at", r.id>> : r \in Range(e.at)} \cup {<<"rt", r.id>> : r \in Range(e.rt)}

SMis(e, fields, exp, obs) ==
  [ h |-> e.h, line |-> l, op |-> IF "op" \in DOMAIN e THEN e.op ELSE (IF e.p \in DOMAIN procs THEN procs[e.p].op ELSE [op |-> "join"]),
    fields |-> fields, exp |-> exp, obs |-> obs, prop |-> "steps", ev |-> e.ev,
    p |-> e.p, f |-> e.f, pc |-> IF e.p \in DOMAIN procs THEN procs[e.p].pc ELSE "" ]

IssuingPc(pc) == pc \in {"rd.inval", "rd.createAT", "rd.createRT", "rd.commit", "rf.rotate", "rf.createAT", "rf.createRT", "rf.commit",
                         "dp.inval", "dp.createAT", "dp.createRT", "dp.commit"}

(* what can be said about a finished single request from the observation alone (used after the          *)
(* specification and the implementation have parted ways, so that the rest of the history is not wasted)   *)
BlindObs(e) ==
  LET o == e.obs IN
  (IF e.done /\ o.res # "ok" /\ (o.new.at # 0 \/ o.new.rt # 0 \/ o.idt) THEN {"O.TokensOnFailure"} ELSE {})
  \cup (IF e.done /\ Len(procs) = 1 /\ ~TxBalanced(e.txlog) THEN {"O.TxUnbalanced"} ELSE {})
  \cup (IF e.done /\ Len(procs) = 1 /\ st.cfg.store = "tx" /\ "rollback" \in Range(e.txlog)
           /\ proj0 # <<>> /\ ObsProj(e) # proj0 THEN {"O.RollbackDidNotRestore"} ELSE {})

(* ---- a sequential line: reset also clears the step-level variables ------------- *)
SSeq ==
  /\ TStep
  /\ IF Trace[l].ev = "reset"
     THEN procs' = <<>> /\ snap' = <<>> /\ open' = FALSE /\ txlog' = <<>> /\ proj0' = <<>> /\ act0' = {} /\ fpc' = "none"
     ELSE /\ UNCHANGED <<procs, snap, open, txlog, fpc>>
          \* remember the observation of the last sequential line before the concurrent section
          /\ proj0' = ObsProj(Trace[l]) /\ act0' = ObsActive(Trace[l])

SStart ==
  /\ l <= Len(Trace) /\ Trace[l].ev = "start"
  /\ LET e == Trace[l] IN
     IF skip THEN UNCHANGED <<st, skip, report, stats, seen, svars>> 
     ELSE LET pr == StartProc(GG, e.op)
              d == (IF (pr.pc = "done") # e.done THEN {"done"} ELSE {})
                   \cup (IF pr.pc # "done" /\ ~e.done /\ MethodOf(pr) # e.method THEN {"method"} ELSE {})
                   \cup (IF pr.pc = "done" /\ e.done /\ pr.out.res # e.obs.res THEN {"res"} ELSE {})
          IN /\ procs' = Put(procs, e.p, pr)
             /\ IF d = {} THEN UNCHANGED <<skip, report>> /\ stats' = [stats EXCEPT !.matched = @ + 1]
                ELSE /\ skip' = TRUE /\ stats' = [stats EXCEPT !.diverged = @ + 1]
                     /\ report' = Append(report, SMis(e, d, [method |-> MethodOf(pr), res |-> pr.out.res], [method |-> e.method, res |-> e.obs.res]))
             /\ UNCHANGED <<st, seen, snap, open, txlog, proj0, act0, fpc>>
  /\ l' = l + 1

SStepEv ==
  /\ l <= Len(Trace) /\ Trace[l].ev = "step"
  /\ LET e == Trace[l] IN
     IF skip
     THEN \* the specification lost track of this history: only what the observation alone decides is still checked
          LET bd == BlindObs(e) IN
          /\ UNCHANGED <<st, skip, seen, svars>>
          /\ IF bd = {} THEN UNCHANGED <<report, stats>>
             ELSE /\ stats' = [stats EXCEPT !.diverged = @ + 1]
                  /\ report' = Append(report, SMis(e, bd, [proj |-> proj0, txlog |-> <<>>], [proj |-> ObsProj(e), txlog |-> e.txlog, res |-> e.obs.res,
                                                   at |-> e.obs.new.at, rt |-> e.obs.new.rt]))
     ELSE IF e.p \notin DOMAIN procs \/ procs[e.p].pc = "done"
     THEN /\ skip' = TRUE /\ stats' = [stats EXCEPT !.diverged = @ + 1]
          /\ report' = Append(report, SMis(e, {"done"}, [method |-> "finished"], [method |-> e.method]))
          /\ UNCHANGED <<st, seen, svars>>
     ELSE LET pr == procs[e.p]
              r == PStep(GG, pr, e.f)
              done == r.pr.pc = "done"
              o == e.obs
              d == (IF MethodOf(pr) # e.method THEN {"method"} ELSE {})
                   \cup (IF done # e.done THEN {"done"} ELSE {})
                   \cup (IF ~done /\ ~e.done /\ MethodOf(r.pr) # e.next THEN {"next"} ELSE {})
                   \cup (IF ObsProj(e) # Projection(r.G.st) THEN {"proj"} ELSE {})
                   \cup (IF Range(e.txlog) # Range(r.G.txlog) \/ Len(e.txlog) # Len(r.G.txlog) THEN {"txlog"} ELSE {})
                   \cup (IF done /\ e.done /\ o.res # r.pr.out.res THEN {"res"} ELSE {})
                   \cup (IF done /\ e.done /\ (o.new.at # r.pr.out.at \/ o.new.rt # r.pr.out.rt \/ o.new.code # r.pr.out.code) THEN {"issued"} ELSE {})
                   \cup (IF done /\ e.done /\ o.idt # r.pr.out.idt THEN {"idt"} ELSE {})
              \* observation-only predicates (C18)
              od == (IF e.done /\ o.res # "ok" /\ (o.new.at # 0 \/ o.new.rt # 0 \/ o.idt) THEN {"O.TokensOnFailure"} ELSE {})
                    \cup (IF e.done /\ Len(procs) = 1 /\ ~TxBalanced(e.txlog) THEN {"O.TxUnbalanced"} ELSE {})
                    \cup (IF e.done /\ Len(procs) = 1 /\ st.cfg.store = "tx"
                             /\ ((IF e.f # "none" THEN IssuingPc(pr.pc) ELSE IssuingPc(fpc)) \/ "rollback" \in Range(e.txlog))
                             /\ proj0 # <<>> /\ ObsProj(e) # proj0 THEN {"O.RollbackDidNotRestore"} ELSE {})
          IN /\ st' = r.G.st /\ snap' = r.G.snap /\ open' = r.G.open /\ txlog' = r.G.txlog
             /\ procs' = [procs EXCEPT ![e.p] = r.pr]
             /\ fpc' = IF e.f # "none" THEN pr.pc ELSE fpc
             /\ UNCHANGED <<seen, proj0, act0>>
             /\ IF d = {} /\ od = {}
                THEN UNCHANGED <<skip, report>> /\ stats' = [stats EXCEPT !.matched = @ + 1]
                ELSE /\ skip' = (d \cap {"method", "done", "next", "res", "issued", "proj", "txlog"} # {})
                     /\ stats' = [stats EXCEPT !.diverged = @ + 1]
                     /\ report' = Append(report, SMis(e, d \cup od,
                            [method |-> MethodOf(pr), next |-> MethodOf(r.pr), done |-> done, res |-> r.pr.out.res, reason |-> r.pr.out.reason,
                             at |-> r.pr.out.at, rt |-> r.pr.out.rt, proj |-> Projection(r.G.st), txlog |-> r.G.txlog],
                            [method |-> e.method, next |-> e.next, done |-> e.done, res |-> o.res, reason |-> "",
                             at |-> o.new.at, rt |-> o.new.rt, proj |-> ObsProj(e), txlog |-> e.txlog]))
  /\ l' = l + 1

SJoin ==
  /\ l <= Len(Trace) /\ Trace[l].ev = "join"
  /\ LET e == Trace[l] IN
     IF skip THEN UNCHANGED <<st, skip, report, stats, seen, svars>>
     ELSE LET pa == ProbeAT(st)
              pr == ProbeRT(st)
              oa == ObsAT(e)
              or == ObsRT(e)
              issued == UNION {IF procs[p].out.res = "ok" THEN {<<"at", procs[p].out.at>>, <<"rt", procs[p].out.rt>>} ELSE {} : p \in DOMAIN procs}
              failed == \A p \in DOMAIN procs : procs[p].out.res # "ok"
              d == (IF Ids(oa) # Ids(pa) \/ Ids(or) # Ids(pr) THEN {"probe_active"} ELSE {})
                   \cup (IF Ids(oa) = Ids(pa) /\ Ids(or) = Ids(pr) /\ (oa # pa \/ or # pr) THEN {"probe_payload"} ELSE {})
                   \cup (IF e.dup THEN {"O.DuplicateValue"} ELSE {})
                   \cup (IF Len(procs) = 1 /\ failed /\ ~(ObsActive(e) \subseteq act0) THEN {"O.NotFailClosed"} ELSE {})
          IN /\ UNCHANGED <<st, seen, svars>>
             /\ IF d = {} THEN UNCHANGED <<skip, report>> /\ stats' = [stats EXCEPT !.matched = @ + 1]
                ELSE /\ skip' = ("probe_active" \in d) /\ stats' = [stats EXCEPT !.diverged = @ + 1]
                     /\ report' = Append(report, SMis([e EXCEPT !.p = 0], d,
                            [at |-> Ids(pa), rt |-> Ids(pr), extra_at |-> {[id |-> x, why |-> WhyDead(st, "at", x)] : x \in Ids(oa) \ Ids(pa)},
                             extra_rt |-> {[id |-> x, why |-> WhyDead(st, "rt", x)] : x \in Ids(or) \ Ids(pr)}],
                            [at |-> Ids(oa), rt |-> Ids(or), before |-> act0]))
  /\ l' = l + 1

SFinish == TFinish /\ UNCHANGED svars
SNext == (SSeq \/ SStart \/ SStepEv \/ SJoin \/ SFinish)
SSpec == SInit /\ [][SNext]_<<vars, svars>>
=============================================================================
