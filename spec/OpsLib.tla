------------------------------- MODULE OpsLib -------------------------------
(* Builders for operation records.  Field names are the JSON names of the Go harness. *)
AudA_ == "https://api.a.example/"
Authz(c, rt, sc, gr, au, rd, pk) ==
  [op |-> "authorize", client |-> c, rtype |-> rt, scopes |-> sc, grant |-> gr, aud |-> au, redir |-> rd, pkce |-> pk]
AuthzIll(c, rt, sc, gr, au, rd, pk, ill) ==     \* ... whose PKCE verifier contains the reserved character named by ill
  [op |-> "authorize", client |-> c, rtype |-> rt, scopes |-> sc, grant |-> gr, aud |-> au, redir |-> rd, pkce |-> pk, ill |-> ill]
AuthzG(c, rt, sc, gr, au, gau, rd, pk) ==      \* ... with partial consent on the audience
  [op |-> "authorize", client |-> c, rtype |-> rt, scopes |-> sc, grant |-> gr, aud |-> au, gaud |-> gau, redir |-> rd, pkce |-> pk]
Redeem(c, a, k, rd, v, xs, xa) ==
  [op |-> "redeem", client |-> c, auth |-> a, code |-> k, redir |-> rd, ver |-> v, xscope |-> xs, xaud |-> xa]
Refresh(c, a, j, xs, xa) == [op |-> "refresh", client |-> c, auth |-> a, tok |-> j, xscope |-> xs, xaud |-> xa]
Revoke(c, a, kind, t, h) == [op |-> "revoke", client |-> c, auth |-> a, kind |-> kind, tok |-> t, hint |-> h]
Introspect(c, caller, n, kind, t, h, need) ==
  [op |-> "introspect", client |-> c, caller |-> caller, n |-> n, kind |-> kind, tok |-> t, hint |-> h, need |-> need]
CCreds(c, a, sc, au) == [op |-> "ccreds", client |-> c, auth |-> a, scopes |-> sc, aud |-> au]
PasswordG(c, a, u, sc, gr, au) ==      \* ... where the application grants only gr of the requested scopes
  [op |-> "password", client |-> c, auth |-> a, user |-> u, scopes |-> sc, grant |-> gr, aud |-> au]
Password(c, a, u, sc, au) == [op |-> "password", client |-> c, auth |-> a, user |-> u, scopes |-> sc, aud |-> au]
DevStart(c, a, sc, gr, au) == [op |-> "devstart", client |-> c, auth |-> a, scopes |-> sc, grant |-> gr, aud |-> au]
DevDecide(d, dec) == [op |-> "devdecide", dev |-> d, dec |-> dec]
DevPoll(c, a, d) == [op |-> "devpoll", client |-> c, auth |-> a, dev |-> d]
(* a device code rebuilt from the signature the store holds: nothing (sig_only), or something that is not base64 (sig_junk), where the key belongs *)
DevPollForged(c, a, d, how) == [op |-> "devpoll", client |-> c, auth |-> a, dev |-> d, forge |-> how]
Push(c, a, rt, sc, au, rd, f, u) ==
  [op |-> "push", client |-> c, auth |-> a, rtype |-> rt, scopes |-> sc, aud |-> au, redir |-> rd, field |-> f, par |-> u]
UsePar(c, kind, u, f) == [op |-> "usepar", client |-> c, kind |-> kind, par |-> u, field |-> f]
Tick == [op |-> "tick", n |-> 1]
ClientChange(c, f, v) == [op |-> "clientchange", client |-> c, field |-> f, val |-> v]

Probe(kind, t) == [op |-> "probe", kind |-> kind, tok |-> t]
=============================================================================
