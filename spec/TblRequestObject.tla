--------------------------- MODULE TblRequestObject ---------------------------
(***************************************************************************)
(* C13, request objects: parameters carried in an OpenID Connect request    *)
(* object (by value, or by reference through request_uri) are honoured only *)
(* if the request is an OpenID Connect request of a client with registered  *)
(* keys, the object's algorithm is the registered one (if one is            *)
(* registered), a signed object verifies under a registered key, an         *)
(* unsigned one is taken only where the registration permits "none", and a  *)
(* request_uri only if it is pre-registered.                                *)
(* outcome: "honoured" (the object's state/scope take effect),              *)
(*          "ignored"  (not an OpenID Connect request: the parameter is not *)
(*                      looked at, the query's own values stay),            *)
(*          "refused".                                                      *)
(***************************************************************************)
EXTENDS Integers, Sequences, FiniteSets, TLC, Json, IOUtils, SequencesExt

Clients == { [kind |-> k, regalg |-> a, keys |-> ks, uris |-> u] :
               k \in {"oidc", "plain"}, a \in {"", "RS256", "ES256", "none"}, ks \in BOOLEAN, u \in BOOLEAN }
Modes == {"request", "request_uri", "both"}
ObjAlgs == {"RS256_registered_key", "RS256_other_key", "ES256_registered_key", "none", "HS256"}
\* registered_extended: another location that merely STARTS with a registered one (request.jwt.old): not registered
UriKinds == {"registered", "unregistered", "registered_extended"}

AlgName(oa) == CASE oa \in {"RS256_registered_key", "RS256_other_key"} -> "RS256" [] oa = "ES256_registered_key" -> "ES256" [] oa = "HS256" -> "HS256" [] OTHER -> "none"
Outcome(c, openid, mode, oa, uk) ==
  IF ~openid THEN "ignored"
  ELSE IF mode = "both" THEN "refused"
  ELSE IF c.kind # "oidc" THEN "refused"
  ELSE IF ~c.keys THEN "refused"
  ELSE IF mode = "request_uri" /\ (~c.uris \/ uk # "registered") THEN "refused"
  ELSE IF c.regalg # "" /\ c.regalg # AlgName(oa) THEN "refused"
  ELSE IF oa = "none" THEN "honoured"                        \* reached only when the registration is "" (any) or "none"
  ELSE IF oa \in {"RS256_registered_key", "ES256_registered_key"} THEN "honoured"
  ELSE "refused"

Rows == { [client |-> c, openid |-> o, mode |-> m, objalg |-> oa, uri |-> uk, outcome |-> Outcome(c, o, m, oa, uk)] :
            c \in Clients, o \in BOOLEAN, m \in Modes, oa \in ObjAlgs, uk \in UriKinds }
ValidRows == { r \in Rows : (r.mode = "request" => r.uri = "registered") }

ASSUME \A r \in ValidRows : r.outcome = "honoured" => (r.openid /\ r.client.kind = "oidc" /\ r.client.keys)
ASSUME \A r \in ValidRows : (r.outcome = "honoured" /\ r.objalg = "none") => r.client.regalg \in {"", "none"}
ASSUME \A r \in ValidRows : (r.outcome = "honoured" /\ r.mode = "request_uri") => (r.client.uris /\ r.uri = "registered")
ASSUME PrintT(<<"ROWS", Cardinality(ValidRows)>>)
ASSUME JsonSerialize(IOEnv.VERIF_TABLE_REQOBJ, SetToSeq(ValidRows))

VARIABLE x
Init == x = 0
Next == x' = x
Spec == Init /\ [][Next]_x
=============================================================================
