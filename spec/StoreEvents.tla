------------------------------ MODULE StoreEvents ------------------------------
(***************************************************************************)
(* C20, second half: NoSecretToStorage.  The harness records every call at  *)
(* the storage interface made by every flow (both credential transports,    *)
(* both access-token strategies) and classifies each key argument and each  *)
(* value of the stored request form against the secrets it knows: complete  *)
(* credentials ("full:<kind>"), their signatures ("sig:<kind>"), client     *)
(* secrets, the user password, S256 code verifiers, client assertions.      *)
(* This trace specification walks the recorded calls: a storage method may  *)
(* be keyed only by the classes AllowedKey lists, and no stored form value  *)
(* may be a secret or a complete credential.                                *)
(***************************************************************************)
EXTENDS Integers, Sequences, FiniteSets, TLC, Json, IOUtils

Trace == ndJsonDeserialize(IOEnv.VERIF_TRACE)
OutFile == IOEnv.VERIF_REPORT
Range(s) == {s[i] : i \in DOMAIN s}

VARIABLES l, bad
vars == <<l, bad>>

Prefix(s, p) == Len(s) >= Len(p) /\ SubSeq(s, 1, Len(p)) = p
SecretClass(c) == Prefix(c, "secret:") \/ Prefix(c, "full:")
(* the class of a form entry "name=class" *)
RECURSIVE After(_, _)
After(s, i) == IF i > Len(s) THEN "" ELSE IF SubSeq(s, i, i) = "=" THEN SubSeq(s, i + 1, Len(s)) ELSE After(s, i + 1)

AllowedKey(m) ==
  CASE m \in {"CreateAuthorizeCodeSession", "GetAuthorizeCodeSession", "InvalidateAuthorizeCodeSession",
              "CreatePKCERequestSession", "GetPKCERequestSession", "DeletePKCERequestSession"} -> {"sig:code", "other"}
    [] m \in {"CreateOpenIDConnectSession", "GetOpenIDConnectSession", "DeleteOpenIDConnectSession"} -> {"sig:code", "sig:dev", "other"}
    [] m \in {"CreateAccessTokenSession", "GetAccessTokenSession", "DeleteAccessTokenSession"} -> {"sig:at", "other", "empty"}
    [] m \in {"CreateRefreshTokenSession", "GetRefreshTokenSession", "DeleteRefreshTokenSession", "RotateRefreshToken"} -> {"sig:rt", "sig:at", "other", "empty"}
    [] m \in {"CreateDeviceAuthSession", "GetDeviceCodeSession", "InvalidateDeviceCodeSession"} -> {"sig:dev", "other"}
    [] m \in {"CreatePARSession", "GetPARSession", "DeletePARSession"} -> {"par_uri", "other"}
    [] m \in {"NewNonce", "IsNonceValid"} -> {"sig:at", "other"}      \* handler/verifiable: a nonce is bound to an access token -- by its signature, if the statement is to hold
    [] OTHER -> {"client_id", "jti", "other", "empty", "sig:at", "sig:rt", "sig:code", "sig:dev", "par_uri"}

Violations(e) ==
  {[scenario |-> e.scenario, method |-> e.m, what |-> "key", class |-> k] : k \in {x \in Range(e.keys) : x \notin AllowedKey(e.m) \/ SecretClass(x)}}
  \cup {[scenario |-> e.scenario, method |-> e.m, what |-> "form", class |-> f] : f \in {x \in Range(e.form) : SecretClass(After(x, 1))}}

Init == l = 1 /\ bad = {}
Step == /\ l <= Len(Trace) /\ bad' = bad \cup Violations(Trace[l]) /\ l' = l + 1
Finish == /\ l = Len(Trace) + 1 /\ JsonSerialize(OutFile, [events |-> Len(Trace), violations |-> bad]) /\ l' = l + 1 /\ UNCHANGED bad
Spec == Init /\ [][Step \/ Finish]_vars
Consumed == TLCGet("stats").diameter >= Len(Trace) + 2
=============================================================================
