------------------------------- MODULE Steps -------------------------------
(***************************************************************************)
(* Step-level refinement of Grants.tla: an in-flight request is a process   *)
(* whose pc walks the storage calls the handlers issue, ONE STORAGE CALL    *)
(* PER STEP, in the order read off the code (DESIGN.md section 1).          *)
(* Processes interleave freely (C19, C15), any storage call may fail with   *)
(* an injected error kind (C18), and with a transactional store             *)
(* BeginTX/Commit/Rollback act on a snapshot of the tables.                 *)
(*                                                                          *)
(* PStep(G, pr, f) is a deterministic function: global state G, process pr, *)
(* fault kind f ("none" = the call succeeds)  |->  new global state and     *)
(* process.  MethodOf(pr) names the storage-interface method the process is *)
(* about to call; the Go harness parks every goroutine before each storage  *)
(* call and reports that name, so the call ORDER of the real handlers is    *)
(* compared with the specification at every step.                           *)
(***************************************************************************)
EXTENDS Grants

FaultKinds == {"generic", "not_found", "inactive", "serialization"}

(* sets of scopes / audiences back to sequences (fixed order), for operation records built by the model *)
RECURSIVE SelSeq(_, _, _)
SelSeq(seq, set, i) == IF i > Len(seq) THEN <<>> ELSE (IF seq[i] \in set THEN <<seq[i]>> ELSE <<>>) \o SelSeq(seq, set, i + 1)
SetToSeqFixed(set) == SelSeq(ScopeSeq, set, 1)
SetToSeqFixedAud(set) == SelSeq(AudSeq, set, 1)
JoinSelSeq(set) == SetToSeqFixed(set)

(* global state: the Grants state, the open transaction's snapshot, the tx log *)
InitG(st) == [st |-> st, snap |-> <<>>, open |-> FALSE, txlog |-> <<>>]

Loc0 == [row |-> <<>>, at |-> 0, rt |-> 0, withRT |-> FALSE, idt |-> FALSE, pend |-> "", pendr |-> "", nopkce |-> FALSE, e1 |-> "", found |-> "", inj |-> FALSE, rid |-> 0]
NewProc(op, pc) == [op |-> op, pc |-> pc, out |-> Out0, l |-> Loc0]

IsTx(G) == G.st.cfg.store = "tx"
Done(G, pr, res, reason) ==
  [G |-> G, pr |-> [pr EXCEPT !.pc = "done", !.out = [@ EXCEPT !.res = res, !.reason = reason]]]
Goto(G, pr, pc) == [G |-> G, pr |-> [pr EXCEPT !.pc = pc]]
SetS(G, S) == [G EXCEPT !.st.S = S]

(* a failing write inside the issuing transaction: roll back if a transaction is open *)
Abort(G, pr, res, reason, rbpc) ==
  IF G.open THEN Goto(G, [pr EXCEPT !.l.pend = res, !.l.pendr = reason], rbpc) ELSE Done(G, pr, res, reason)
(* handleRefreshTokenEndpointStorageError *)
MapRefreshErr(kind) == IF kind \in {"serialization", "not_found", "inactive"} THEN "invalid_request" ELSE "server_error"

DoBegin(G) == [G EXCEPT !.snap = G.st.S, !.open = TRUE, !.txlog = Append(@, "begin")]
DoCommit(G) == [G EXCEPT !.snap = <<>>, !.open = FALSE, !.txlog = Append(@, "commit")]
DoRollback(G, failed) ==   \* the snapshot is restored whether or not the rollback call itself reports an error
  [G EXCEPT !.st.S = IF G.open THEN G.snap ELSE @, !.snap = <<>>, !.open = FALSE,
            !.txlog = Append(@, IF failed THEN "rollback_fail" ELSE "rollback")]

Deliver(S, i, j) ==
  [S EXCEPT !.at = [x \in DOMAIN S.at |-> IF x = i THEN [S.at[x] EXCEPT !.dl = TRUE] ELSE S.at[x]],
            !.rt = [x \in DOMAIN S.rt |-> IF x = j THEN [S.rt[x] EXCEPT !.dl = TRUE] ELSE S.rt[x]]]

(* rows of a fresh pair; undelivered until the response is complete *)
ATRow(st, rid, client, scopes, aud, sub, via) ==
  [rid |-> rid, client |-> client, scopes |-> scopes, aud |-> aud, sub |-> sub, exp |-> st.now + st.cfg.l_at,
   via |-> via, present |-> TRUE, why |-> "", ep |-> st.nep + 1, dl |-> FALSE]
RTRow(st, rid, client, req, scopes, aud, sub) ==
  [rid |-> rid, client |-> client, req |-> req, scopes |-> scopes, aud |-> aud, sub |-> sub,
   exp |-> IF st.cfg.l_rt < 0 THEN -1 ELSE st.now + st.cfg.l_rt, active |-> TRUE, present |-> TRUE, why |-> "",
   ep |-> st.nep + 1, dl |-> FALSE]

(* ---- which storage method is the process about to call --------------------- *)
MethodOf(pr) ==
  LET pc == pr.pc IN
  CASE pc \in {"rd.client", "rf.client", "rv.client", "dp.client", "az.client", "ja.client", "cc.client", "pw.client", "pp.client", "pp.client2"} -> "GetClient"
    [] pc \in {"rd.getcode1", "rd.getcode2"} -> "GetAuthorizeCodeSession"
    [] pc \in {"rd.replayAT", "rf.rrevat", "rv.revat", "dp.replayAT"} -> "RevokeAccessToken"
    [] pc \in {"rd.replayRT", "rf.rrevrt", "rv.revrt", "dp.replayRT"} -> "RevokeRefreshToken"
    [] pc = "rd.getpkce" -> "GetPKCERequestSession"
    [] pc \in {"rd.begin", "rf.begin", "rf.rbegin", "dp.begin"} -> "BeginTX"
    [] pc = "rd.inval" -> "InvalidateAuthorizeCodeSession"
    [] pc \in {"rd.createAT", "rf.createAT", "dp.createAT", "az.createAT", "ja.createAT", "jb.createAT", "cc.createAT", "pw.createAT"} -> "CreateAccessTokenSession"
    [] pc \in {"rd.createRT", "rf.createRT", "dp.createRT", "pw.createRT"} -> "CreateRefreshTokenSession"
    [] pc = "pw.auth" -> "Authenticate"
    [] pc = "pp.create" -> "CreatePARSession"
    [] pc = "up.get" -> "GetPARSession"
    [] pc = "up.del" -> "DeletePARSession"
    [] pc \in {"rd.commit", "rf.commit", "rf.rcommit", "dp.commit"} -> "Commit"
    [] pc \in {"rd.rollback", "rf.rollback", "dp.rollback"} -> "Rollback"
    [] pc \in {"rd.getoidc", "dp.getoidc"} -> "GetOpenIDConnectSession"
    [] pc \in {"rd.deloidc", "dp.deloidc"} -> "DeleteOpenIDConnectSession"
    [] pc = "rd.delpkce" -> "DeletePKCERequestSession"
    [] pc \in {"rf.getrt", "rv.findrt", "pb.rt"} -> "GetRefreshTokenSession"
    [] pc = "rf.rdel" -> "DeleteRefreshTokenSession"
    [] pc = "rf.rotate" -> "RotateRefreshToken"
    [] pc \in {"rv.findat", "pb.at"} -> "GetAccessTokenSession"
    [] pc \in {"dp.get1", "dp.get2"} -> "GetDeviceCodeSession"
    [] pc = "dp.inval" -> "InvalidateDeviceCodeSession"
    [] pc = "ja.valid" -> "ClientAssertionJWTValid"
    [] pc = "ja.set" -> "SetClientAssertionJWT"
    [] pc = "jb.getkey" -> "GetPublicKey"
    [] pc = "jb.used" -> "IsJWTUsed"
    [] pc = "jb.scopes" -> "GetPublicKeyScopes"
    [] pc = "jb.mark" -> "MarkJWTUsedForTime"
    [] pc = "az.createcode" -> "CreateAuthorizeCodeSession"
    [] pc = "az.createoidc" -> "CreateOpenIDConnectSession"
    [] pc = "az.createpkce" -> "CreatePKCERequestSession"
    [] OTHER -> "none"

(* ---- starting a request: everything that happens before the first storage call *)
StartProc(G, op) ==
  LET st == G.st IN
  CASE op.op = "redeem" ->
         IF op.auth = "none" THEN Done(G, NewProc(op, "done"), "invalid_request", "client_unauthenticated").pr
         ELSE NewProc(op, "rd.client")
    [] op.op = "refresh" ->
         IF op.auth = "none" THEN Done(G, NewProc(op, "done"), "invalid_request", "client_unauthenticated").pr
         ELSE NewProc(op, "rf.client")
    [] op.op = "revoke" ->
         IF op.auth = "none" THEN Done(G, NewProc(op, "done"), "invalid_request", "client_unauthenticated").pr
         ELSE NewProc(op, "rv.client")
    [] op.op = "devpoll" ->
         IF op.auth = "none" THEN Done(G, NewProc(op, "done"), "invalid_request", "client_unauthenticated").pr
         ELSE NewProc(op, "dp.client")
    [] op.op = "authorize" ->
         IF st.cfg.par_enf THEN Done(G, NewProc(op, "done"), "invalid_request", "par_enforced").pr
         ELSE NewProc(op, "az.client")
    [] op.op = "probe" -> NewProc(op, IF op.kind = "at" THEN "pb.at" ELSE "pb.rt")
    [] op.op = "ccreds" ->
         IF op.auth = "none" THEN Done(G, NewProc(op, "done"), "invalid_request", "client_unauthenticated").pr ELSE NewProc(op, "cc.client")
    [] op.op = "password" ->
         IF op.auth = "none" THEN Done(G, NewProc(op, "done"), "invalid_request", "client_unauthenticated").pr ELSE NewProc(op, "pw.client")
    [] op.op = "push" ->
         IF op.auth = "none" THEN Done(G, NewProc(op, "done"), "invalid_client", "client_unauthenticated").pr ELSE NewProc(op, "pp.client")
    [] op.op = "usepar" -> NewProc(op, "up.get")
    [] op.op = "jauth" -> NewProc(op, "ja.client")
    [] op.op = "jbearer" -> NewProc(op, "jb.getkey")
    [] OTHER -> NewProc(op, "done")

ClientStep(G, pr, f, next) ==     \* AuthenticateClient: GetClient, then the secret check
  IF f # "none" THEN Done(G, pr, "invalid_client", "client_lookup_failed")
  ELSE IF AuthErr(pr.op) # "ok" THEN Done(G, pr, AuthErr(pr.op), AuthReason(pr.op))
  ELSE Goto(G, pr, next)

(* ======================================================================== *)
(* authorization_code                                                       *)
(* ======================================================================== *)
RedeemStep(G, pr, f) ==
  LET st == G.st
      op == pr.op
      k == op.code
      pc == pr.pc
      row == pr.l.row
      known == Has(st.S.code, k) /\ st.S.code[k].dl
  IN
  CASE pc = "rd.client" ->
         LET r == ClientStep(G, pr, f, "rd.getcode1") IN
         IF r.pr.pc = "rd.getcode1" /\ "authorization_code" \notin st.reg[op.client].grants
         THEN Done(G, pr, "unauthorized_client", "grant_type_not_allowed") ELSE r
    [] pc = "rd.getcode1" ->
         IF f = "not_found" THEN Done(G, pr, "invalid_grant", "code_unknown")
         ELSE IF f # "none" THEN Done(G, pr, "server_error", "storage_failure")
         ELSE LET g == IF ~known THEN "not_found" ELSE GetAuthorizeCodeSession(st.S, k) IN
         IF g = "not_found" THEN Done(G, pr, "invalid_grant", "code_unknown")
         ELSE LET cr == st.S.code[k] IN
         IF g = "invalidated" THEN Goto(G, [pr EXCEPT !.l.row = cr], "rd.replayAT")
         ELSE IF cr.client # op.client THEN Done(G, pr, "invalid_grant", "wrong_client")
         ELSE IF cr.redir /\ op.redir # "same" THEN Done(G, pr, "invalid_grant", "redirect_mismatch")
         ELSE Goto(G, [pr EXCEPT !.l.row = cr], "rd.getpkce")
    [] pc = "rd.replayAT" ->      \* errors of the two revocations are only appended to the hint
         Goto(IF f = "none" THEN SetS(G, RevokeAccessToken(st.S, row.rid, "replay")) ELSE G, pr, "rd.replayRT")
    [] pc = "rd.replayRT" ->
         Done([(IF f = "none" THEN SetS(G, RevokeRefreshToken(st.S, row.rid, "replay")) ELSE G)
                  EXCEPT !.st.replayed = IF pr.l.inj THEN @ ELSE @ \cup {k}],
              pr, "invalid_grant", "code_used")
    [] pc = "rd.getpkce" ->
         IF f \notin {"none", "not_found"} THEN Done(G, pr, "server_error", "storage_failure")
         ELSE LET stx == IF f = "not_found" THEN [st EXCEPT !.S.pkce = <<>>] ELSE st   \* the store claims there is no session
                  pe == PkceTokenErr(stx, op, k)
              IN IF pe[1] # "ok" THEN Done(G, pr, pe[1], pe[2]) ELSE Goto(G, pr, "rd.getcode2")
    [] pc = "rd.getcode2" ->
         IF f # "none" \/ GetAuthorizeCodeSession(st.S, k) # "ok" THEN Done(G, pr, "server_error", "storage_failure")
         ELSE IF st.now > st.S.code[k].exp THEN Done(G, pr, "invalid_request", "code_expired")
         ELSE Goto(G, [pr EXCEPT !.l.withRT = CanIssueRT(st, st.S.code[k].scopes, st.S.code[k].client), !.l.row = st.S.code[k]],
                   IF IsTx(G) THEN "rd.begin" ELSE "rd.inval")
    [] pc = "rd.begin" ->
         IF f # "none" THEN Done([G EXCEPT !.txlog = Append(@, "begin_fail")], pr, "server_error", "storage_failure")
         ELSE Goto(DoBegin(G), pr, "rd.inval")
    [] pc = "rd.inval" ->
         IF f # "none" \/ ~Has(st.S.code, k) THEN Abort(G, pr, "server_error", "storage_failure", "rd.rollback")
         ELSE Goto(SetS(G, InvalidateAuthorizeCodeSession(st.S, k)), pr, "rd.createAT")
    [] pc = "rd.createAT" ->
         IF f # "none" THEN Abort(G, pr, "server_error", "storage_failure", "rd.rollback")
         ELSE LET i == Count(st.S.at) + 1 IN
              Goto(SetS(G, CreateAccessTokenSession(st.S, i, ATRow(st, row.rid, row.client, row.scopes, row.aud, Subject, "token"))),
                   [pr EXCEPT !.l.at = i],
                   IF pr.l.withRT THEN "rd.createRT" ELSE IF IsTx(G) THEN "rd.commit" ELSE "rd.getoidc")
    [] pc = "rd.createRT" ->
         IF f # "none" THEN Abort(G, pr, "server_error", "storage_failure", "rd.rollback")
         ELSE LET j == Count(st.S.rt) + 1 IN
              Goto(SetS(G, CreateRefreshTokenSession(st.S, j, RTRow(st, row.rid, row.client, row.req, row.scopes, row.aud, Subject))),
                   [pr EXCEPT !.l.rt = j], IF IsTx(G) THEN "rd.commit" ELSE "rd.getoidc")
    [] pc = "rd.commit" ->
         IF f # "none" THEN Abort([G EXCEPT !.txlog = Append(@, "commit_fail")], pr, "server_error", "storage_failure", "rd.rollback")
         ELSE Goto(DoCommit(G), pr, "rd.getoidc")
    [] pc = "rd.rollback" ->
         LET G2 == DoRollback(G, f # "none") IN
         Done(G2, [pr EXCEPT !.l.at = 0, !.l.rt = 0], IF f # "none" THEN "server_error" ELSE pr.l.pend, pr.l.pendr)
    [] pc = "rd.getoidc" ->
         IF f \notin {"none", "not_found"} THEN Done(G, pr, "server_error", "storage_failure")
         ELSE IF f = "not_found" \/ k \notin st.S.oidc THEN Goto(G, pr, "rd.delpkce")
         ELSE Goto(G, pr, "rd.deloidc")
    [] pc = "rd.deloidc" ->
         IF f # "none" THEN Done(G, pr, "server_error", "storage_failure")
         ELSE Goto(SetS(G, DeleteOpenIDConnectSession(st.S, k)), [pr EXCEPT !.l.idt = TRUE], "rd.delpkce")
    [] OTHER -> \* "rd.delpkce"
         IF f # "none" THEN Done(G, pr, "server_error", "storage_failure")
         ELSE LET S1 == DeletePKCERequestSession(st.S, k)
                  G1 == [SetS(G, Deliver(S1, pr.l.at, pr.l.rt)) EXCEPT !.st.nep = @ + 1]
              IN [G |-> G1, pr |-> [pr EXCEPT !.pc = "done",
                     !.out = [Out0 EXCEPT !.at = pr.l.at, !.rt = pr.l.rt, !.expin = st.cfg.l_at, !.idt = pr.l.idt]]]

(* ======================================================================== *)
(* refresh_token                                                            *)
(* ======================================================================== *)
RefreshStep(G, pr, f) ==
  LET st == G.st
      op == pr.op
      j == op.tok
      pc == pr.pc
      row == pr.l.row
      known == Has(st.S.rt, j) /\ st.S.rt[j].dl
      AbortM(GG, kind) == Abort(GG, pr, MapRefreshErr(kind), "storage_failure", "rf.rollback")
  IN
  CASE pc = "rf.client" ->
         LET r == ClientStep(G, pr, f, "rf.getrt") IN
         IF r.pr.pc = "rf.getrt" /\ "refresh_token" \notin st.reg[op.client].grants
         THEN Done(G, pr, "unauthorized_client", "grant_type_not_allowed") ELSE r
    [] pc = "rf.getrt" ->
         IF f = "not_found" THEN Done(G, pr, "invalid_grant", "rt_unknown")
         ELSE IF f \in {"generic", "serialization"} THEN Done(G, pr, "server_error", "storage_failure")
         ELSE LET g0 == IF ~known THEN "not_found" ELSE GetRefreshTokenSession(st.S, j)
                  g == IF f = "inactive" /\ g0 # "not_found" THEN "inactive" ELSE g0     \* the store claims the token was used
              IN
         IF g = "not_found" THEN Done(G, pr, "invalid_grant", "rt_unknown")
         ELSE LET rr == st.S.rt[j] IN
         IF g = "inactive" THEN Goto(G, [pr EXCEPT !.l.row = rr], IF IsTx(G) THEN "rf.rbegin" ELSE "rf.rdel")
         ELSE IF rr.exp # -1 /\ st.now > rr.exp THEN Done(G, pr, "invalid_grant", "rt_expired")
         ELSE IF ~(RScopes(st) = {} \/ rr.scopes \cap RScopes(st) # {}) THEN Done(G, pr, "scope_not_granted", "rt_scope_missing")
         ELSE IF rr.client # op.client THEN Done(G, pr, "invalid_grant", "rt_wrong_client")
         ELSE IF ~(rr.scopes \subseteq st.reg[op.client].scopes) THEN Done(G, pr, "invalid_scope", "rt_scope_lost")
         ELSE IF ~(rr.aud \subseteq st.reg[op.client].aud) THEN Done(G, pr, "invalid_request", "rt_aud_lost")
         ELSE Goto(G, [pr EXCEPT !.l.row = rr], IF IsTx(G) THEN "rf.begin" ELSE "rf.rotate")
    (* reuse handling *)
    [] pc = "rf.rbegin" ->
         IF f # "none" THEN Done([G EXCEPT !.txlog = Append(@, "begin_fail")], pr, "server_error", "storage_failure")
         ELSE Goto(DoBegin(G), pr, "rf.rdel")
    [] pc = "rf.rdel" ->
         IF f # "none" THEN AbortM(G, f)
         ELSE Goto(SetS(G, DeleteRefreshTokenSession(st.S, j, "reuse")), pr, "rf.rrevrt")
    [] pc = "rf.rrevrt" ->
         IF f \notin {"none", "not_found"} THEN AbortM(G, f)
         ELSE Goto(IF f = "none" THEN SetS(G, RevokeRefreshToken(st.S, row.rid, "reuse")) ELSE G, pr, "rf.rrevat")
    [] pc = "rf.rrevat" ->
         IF f \notin {"none", "not_found"} THEN AbortM(G, f)
         ELSE LET G1 == IF f = "none" THEN SetS(G, RevokeAccessToken(st.S, row.rid, "reuse")) ELSE G
                  G2 == [G1 EXCEPT !.st.reused = IF pr.l.inj THEN @ ELSE @ \cup {row.rid}]
              IN IF IsTx(G) THEN Goto(G1, pr, "rf.rcommit") ELSE Done(G2, pr, "invalid_grant", "rt_used")
    [] pc = "rf.rcommit" ->
         IF f # "none" THEN AbortM([G EXCEPT !.txlog = Append(@, "commit_fail")], f)
         ELSE Done([DoCommit(G) EXCEPT !.st.reused = IF pr.l.inj THEN @ ELSE @ \cup {row.rid}], pr, "invalid_grant", "rt_used")
    (* rotation *)
    [] pc = "rf.begin" ->
         IF f # "none" THEN Done([G EXCEPT !.txlog = Append(@, "begin_fail")], pr, "server_error", "storage_failure")
         ELSE Goto(DoBegin(G), pr, "rf.rotate")
    [] pc = "rf.rotate" ->
         IF f # "none" THEN AbortM(G, f)
         ELSE IF RevokeRefreshTokenErr(st.S, row.rid) # "ok" THEN AbortM(G, "not_found")
         ELSE Goto(SetS(G, RotateRefreshToken(st.S, row.rid)), pr, "rf.createAT")
    [] pc = "rf.createAT" ->
         IF f # "none" THEN AbortM(G, f)
         ELSE LET i == Count(st.S.at) + 1 IN
              Goto(SetS(G, CreateAccessTokenSession(st.S, i, ATRow(st, row.rid, row.client, row.scopes, row.aud, row.sub, "token"))),
                   [pr EXCEPT !.l.at = i], "rf.createRT")
    [] pc = "rf.createRT" ->
         IF f # "none" THEN AbortM(G, f)
         ELSE LET jj == Count(st.S.rt) + 1
                  G1 == SetS(G, CreateRefreshTokenSession(st.S, jj, RTRow(st, row.rid, row.client, row.req, row.scopes, row.aud, row.sub)))
                  pr1 == [pr EXCEPT !.l.rt = jj]
              IN IF IsTx(G) THEN Goto(G1, pr1, "rf.commit")
                 ELSE [G |-> [SetS(G1, Deliver(G1.st.S, pr.l.at, jj)) EXCEPT !.st.nep = @ + 1],
                       pr |-> [pr1 EXCEPT !.pc = "done", !.out = [Out0 EXCEPT !.at = pr.l.at, !.rt = jj, !.expin = st.cfg.l_at,
                                                                               !.idt = "openid" \in row.scopes]]]
    [] pc = "rf.commit" ->
         IF f # "none" THEN AbortM([G EXCEPT !.txlog = Append(@, "commit_fail")], f)
         ELSE LET G1 == DoCommit(G) IN
              [G |-> [SetS(G1, Deliver(G1.st.S, pr.l.at, pr.l.rt)) EXCEPT !.st.nep = @ + 1],
               pr |-> [pr EXCEPT !.pc = "done", !.out = [Out0 EXCEPT !.at = pr.l.at, !.rt = pr.l.rt, !.expin = st.cfg.l_at,
                                                                      !.idt = "openid" \in row.scopes]]]
    [] OTHER -> \* "rf.rollback"
         LET G2 == DoRollback(G, f # "none") IN
         Done(G2, [pr EXCEPT !.l.at = 0, !.l.rt = 0], IF f # "none" THEN "server_error" ELSE pr.l.pend, pr.l.pendr)

(* ======================================================================== *)
(* revocation                                                               *)
(* ======================================================================== *)
RevErrOK(e) == e \in {"", "not_found", "inactive"}
RevokeStep(G, pr, f) ==
  LET st == G.st
      op == pr.op
      pc == pr.pc
      first == IF op.hint = "at" THEN "rv.findat" ELSE "rv.findrt"
      second == IF op.hint = "at" THEN "rv.findrt" ELSE "rv.findat"
      LookRT == IF f # "none" THEN f
                ELSE IF op.kind = "rt" /\ Has(st.S.rt, op.tok) /\ st.S.rt[op.tok].present /\ st.S.rt[op.tok].dl
                     THEN (IF st.S.rt[op.tok].active THEN "" ELSE "inactive") ELSE "not_found"
      LookAT == IF f # "none" THEN f
                ELSE IF op.kind = "at" /\ Has(st.S.at, op.tok) /\ st.S.at[op.tok].present /\ st.S.at[op.tok].dl THEN "" ELSE "not_found"
      Found(kind) ==   \* owner check, then the two revocations
         LET r == IF kind = "rt" THEN st.S.rt[op.tok] ELSE st.S.at[op.tok] IN
         IF r.client # op.client THEN Done(G, pr, "unauthorized_client", "revoke_foreign_client")
         ELSE Goto(G, [pr EXCEPT !.l.row = r, !.l.found = kind], "rv.revrt")
      Miss(e) ==       \* this lookup failed with e
         IF pc = first THEN Goto(G, [pr EXCEPT !.l.e1 = e], second)
         ELSE IF RevErrOK(pr.l.e1) /\ RevErrOK(e) THEN Done(G, pr, "ok", "revoke_unknown")
         ELSE Done(G, pr, "temporarily_unavailable", "storage_failure")
  IN
  CASE pc = "rv.client" -> ClientStep(G, pr, f, first)
    [] pc = "rv.findrt" -> IF LookRT = "" THEN Found("rt") ELSE Miss(LookRT)
    [] pc = "rv.findat" -> IF LookAT = "" THEN Found("at") ELSE Miss(LookAT)
    [] pc = "rv.revrt" ->
         LET e == IF f # "none" THEN f ELSE IF RevokeRefreshTokenErr(st.S, pr.l.row.rid) # "ok" THEN "not_found" ELSE "" IN
         Goto(IF f = "none" THEN SetS(G, RevokeRefreshToken(st.S, pr.l.row.rid, "revoked")) ELSE G,
              [pr EXCEPT !.l.e1 = e, !.l.pend = IF f # "none" THEN "injected" ELSE ""], "rv.revat")
    [] OTHER -> \* "rv.revat"
         LET e2 == IF f # "none" THEN f ELSE ""
             row == pr.l.row
             sib == {<<"at", i>> : i \in {x \in DOMAIN st.S.at : st.S.at[x].ep = row.ep /\ st.S.at[x].rid = row.rid}}
                    \cup {<<"rt", j>> : j \in {x \in DOMAIN st.S.rt : st.S.rt[x].ep = row.ep /\ st.S.rt[x].rid = row.rid}}
             G1 == IF ~pr.l.inj                                \* ghost: both revocations really happened
                   THEN [SetS(G, RevokeAccessToken(st.S, row.rid, "revoked")) EXCEPT !.st.revoked = @ \cup sib \cup {<<op.kind, op.tok>>}]
                   ELSE IF f = "none" THEN SetS(G, RevokeAccessToken(st.S, row.rid, "revoked")) ELSE G
         IN IF RevErrOK(pr.l.e1) /\ RevErrOK(e2) THEN Done(G1, pr, "ok", "ok")
            ELSE Done(G1, pr, "temporarily_unavailable", "storage_failure")

(* ======================================================================== *)
(* device code                                                              *)
(* ======================================================================== *)
DevPollStep(G, pr, f) ==
  LET st == G.st
      op == pr.op
      d == op.dev
      pc == pr.pc
      row == pr.l.row
      contract == st.cfg.store = "contract"
      known == Has(st.S.dev, d) /\ st.S.dev[d].dl
  IN
  CASE pc = "dp.client" ->
         LET r == ClientStep(G, pr, f, "dp.get1") IN
         IF r.pr.pc = "dp.get1" /\ GDevice \notin st.reg[op.client].grants
         THEN Done(G, pr, "unauthorized_client", "grant_type_not_allowed") ELSE r
    [] pc = "dp.get1" ->
         IF f = "not_found" THEN Done(G, pr, "invalid_grant", "dev_unknown")
         ELSE IF f # "none" THEN Done(G, pr, "server_error", "storage_failure")
         ELSE LET g == IF ~known THEN "not_found" ELSE GetDeviceCodeSession(st.S, d, contract) IN
         IF g = "not_found" THEN Done(G, pr, "invalid_grant", IF known THEN "dev_used" ELSE "dev_unknown")
         ELSE LET dr == st.S.dev[d] IN
         IF g = "invalidated" THEN Goto(G, [pr EXCEPT !.l.row = dr], "dp.replayAT")
         ELSE IF dr.ustate = "unused" THEN Done(G, pr, "authorization_pending", "dev_pending")
         ELSE IF dr.ustate = "rejected" THEN Done(G, pr, "access_denied", "dev_denied")
         ELSE IF st.now > dr.exp THEN Done(G, pr, "expired_token", "dev_expired")
         ELSE IF dr.client # op.client THEN Done(G, pr, "invalid_grant", "dev_wrong_client")
         ELSE Goto(G, [pr EXCEPT !.l.row = dr], "dp.get2")
    [] pc = "dp.replayAT" ->
         Goto(IF f = "none" THEN SetS(G, RevokeAccessToken(st.S, row.rid, "replay")) ELSE G, pr, "dp.replayRT")
    [] pc = "dp.replayRT" ->
         Done([(IF f = "none" THEN SetS(G, RevokeRefreshToken(st.S, row.rid, "replay")) ELSE G)
                  EXCEPT !.st.devused = IF pr.l.inj THEN @ ELSE @ \cup {d}],
              pr, "invalid_grant", "dev_used")
    [] pc = "dp.get2" ->
         IF f # "none" \/ GetDeviceCodeSession(st.S, d, contract) # "ok" THEN Done(G, pr, "server_error", "storage_failure")
         ELSE IF st.S.dev[d].ustate # "accepted" THEN Done(G, pr, "server_error", "storage_failure")
         ELSE IF st.now > st.S.dev[d].exp THEN Done(G, pr, "expired_token", "dev_expired")
         ELSE Goto(G, [pr EXCEPT !.l.withRT = CanIssueRT(st, row.scopes, op.client)], IF IsTx(G) THEN "dp.begin" ELSE "dp.inval")
    [] pc = "dp.begin" ->
         IF f # "none" THEN Done([G EXCEPT !.txlog = Append(@, "begin_fail")], pr, "server_error", "storage_failure")
         ELSE Goto(DoBegin(G), pr, "dp.inval")
    [] pc = "dp.inval" ->
         IF f # "none" THEN Abort(G, pr, "server_error", "storage_failure", "dp.rollback")
         ELSE Goto(SetS(G, InvalidateDeviceCodeSession(st.S, d)), pr, "dp.createAT")
    [] pc = "dp.createAT" ->
         IF f # "none" THEN Abort(G, pr, "server_error", "storage_failure", "dp.rollback")
         ELSE LET i == Count(st.S.at) + 1 IN
              Goto(SetS(G, CreateAccessTokenSession(st.S, i, ATRow(st, row.rid, row.client, row.scopes, row.aud, Subject, "token"))),
                   [pr EXCEPT !.l.at = i],
                   IF pr.l.withRT THEN "dp.createRT" ELSE IF IsTx(G) THEN "dp.commit" ELSE "dp.getoidc")
    [] pc = "dp.createRT" ->
         IF f # "none" THEN Abort(G, pr, "server_error", "storage_failure", "dp.rollback")
         ELSE LET j == Count(st.S.rt) + 1 IN
              Goto(SetS(G, CreateRefreshTokenSession(st.S, j, RTRow(st, row.rid, row.client, row.req, row.scopes, row.aud, Subject))),
                   [pr EXCEPT !.l.rt = j], IF IsTx(G) THEN "dp.commit" ELSE "dp.getoidc")
    [] pc = "dp.commit" ->
         IF f # "none" THEN Abort([G EXCEPT !.txlog = Append(@, "commit_fail")], pr, "server_error", "storage_failure", "dp.rollback")
         ELSE Goto(DoCommit(G), pr, "dp.getoidc")
    [] pc = "dp.rollback" ->
         LET G2 == DoRollback(G, f # "none") IN
         Done(G2, [pr EXCEPT !.l.at = 0, !.l.rt = 0], IF f # "none" THEN "server_error" ELSE pr.l.pend, pr.l.pendr)
    [] pc = "dp.getoidc" ->
         IF f \notin {"none", "not_found"} THEN Done(G, pr, "server_error", "storage_failure")
         ELSE IF f = "none" /\ d \in st.S.doidc THEN Goto(G, pr, "dp.deloidc")
         ELSE [G |-> [SetS(G, Deliver(st.S, pr.l.at, pr.l.rt)) EXCEPT !.st.nep = @ + 1],
               pr |-> [pr EXCEPT !.pc = "done", !.out = [Out0 EXCEPT !.at = pr.l.at, !.rt = pr.l.rt, !.expin = st.cfg.l_at]]]
    [] OTHER -> \* "dp.deloidc"
         IF f # "none" THEN Done(G, pr, "server_error", "storage_failure")
         ELSE LET S1 == [st.S EXCEPT !.doidc = @ \ {d}] IN
              [G |-> [SetS(G, Deliver(S1, pr.l.at, pr.l.rt)) EXCEPT !.st.nep = @ + 1],
               pr |-> [pr EXCEPT !.pc = "done", !.out = [Out0 EXCEPT !.at = pr.l.at, !.rt = pr.l.rt, !.expin = st.cfg.l_at, !.idt = TRUE]]]

(* ======================================================================== *)
(* authorization endpoint (plain request; code and hybrid response types)   *)
(* ======================================================================== *)
AuthorizeStep(G, pr, f) ==
  LET st == G.st
      op == pr.op
      pc == pr.pc
      req == Range(op.scopes)
      grant == Range(op.grant) \cap req
      aud == Range(op.aud)
      openid == "openid" \in grant
      k == pr.l.at    \* code id once created (reusing the at slot of the locals for the code)
      AfterOidc == IF HasTok(op.rtype) THEN "az.createAT" ELSE IF op.pkce # "none" THEN "az.createpkce" ELSE "az.finish"
  IN
  CASE pc = "az.client" ->
         IF f # "none" THEN Done(G, pr, "invalid_client", "client_lookup_failed")
         ELSE LET e == AuthzRequestErr(st, op.client, req, aud, op.redir = "sent") IN
         IF e[1] # "ok" THEN Done(G, pr, e[1], e[2])
         ELSE IF Hybrid(op.rtype) /\ op.redir # "sent" THEN Done(G, pr, "invalid_request", "oidc_redirect_required")
         ELSE IF Hybrid(op.rtype) /\ "authorization_code" \notin st.reg[op.client].grants THEN Done(G, pr, "invalid_grant", "grant_type_not_allowed")
         ELSE IF op.rtype = "token" /\ "implicit" \notin st.reg[op.client].grants THEN Done(G, pr, "invalid_grant", "grant_type_not_allowed")
         ELSE Goto([G EXCEPT !.st.nrid = @ + 1], [pr EXCEPT !.l.rid = st.nrid + 1], IF op.rtype = "token" THEN "az.createAT" ELSE "az.createcode")
    [] pc = "az.createcode" ->
         IF f # "none" THEN Done(G, pr, "server_error", "storage_failure")
         ELSE LET kk == Count(st.S.code) + 1
                  row == [client |-> op.client, rid |-> pr.l.rid, req |-> req, scopes |-> grant, aud |-> aud,
                          redir |-> op.redir = "sent", exp |-> st.now + st.cfg.l_code, active |-> TRUE, openid |-> openid, dl |-> FALSE]
              IN Goto(SetS(G, CreateAuthorizeCodeSession(st.S, kk, row)), [pr EXCEPT !.l.rt = kk],
                      IF openid THEN "az.createoidc" ELSE
                      IF Hybrid(op.rtype) /\ HasTok(op.rtype) /\ "implicit" \notin st.reg[op.client].grants THEN "az.fail_implicit"
                      ELSE IF HasTok(op.rtype) THEN "az.createAT" ELSE IF PkceAuthzErr(st, [rtype |-> op.rtype, pkce |-> op.pkce, client |-> op.client]) # "ok" THEN "az.fail_pkce"
                      ELSE IF op.pkce # "none" THEN "az.createpkce" ELSE "az.finish")
    [] pc = "az.createoidc" ->
         IF f # "none" THEN Done(G, pr, "server_error", "storage_failure")
         ELSE Goto(SetS(G, CreateOpenIDConnectSession(st.S, pr.l.rt)), pr,
                   IF Hybrid(op.rtype) /\ HasTok(op.rtype) /\ "implicit" \notin st.reg[op.client].grants THEN "az.fail_implicit"
                   ELSE IF HasTok(op.rtype) THEN "az.createAT"
                   ELSE IF PkceAuthzErr(st, [rtype |-> op.rtype, pkce |-> op.pkce, client |-> op.client]) # "ok" THEN "az.fail_pkce"
                   ELSE IF op.pkce # "none" THEN "az.createpkce" ELSE "az.finish")
    [] pc = "az.createAT" ->
         IF f # "none" THEN Done(G, pr, "server_error", "storage_failure")
         ELSE LET i == Count(st.S.at) + 1 IN
              Goto(SetS(G, CreateAccessTokenSession(st.S, i, ATRow(st, pr.l.rid, op.client, grant, aud, Subject, "authz"))),
                   [pr EXCEPT !.l.at = i],
                   IF PkceAuthzErr(st, [rtype |-> op.rtype, pkce |-> op.pkce, client |-> op.client]) # "ok" THEN "az.fail_pkce"
                   ELSE IF HasCode(op.rtype) /\ op.pkce # "none" THEN "az.createpkce" ELSE "az.finish")
    [] OTHER -> \* "az.createpkce"
         IF f # "none" THEN Done(G, pr, "server_error", "storage_failure")
         ELSE Goto(SetS(G, CreatePKCERequestSession(st.S, pr.l.rt, op.pkce)), pr, "az.finish")

(* pcs that complete without a further storage call are resolved immediately *)
Settle(r) ==
  LET G == r.G
      pr == r.pr
      st == G.st
      op == pr.op
  IN
  IF pr.pc = "az.finish"
  THEN LET k == pr.l.rt
           i == pr.l.at
           S1 == IF k # 0 THEN [st.S EXCEPT !.code = [x \in DOMAIN st.S.code |-> IF x = k THEN [st.S.code[x] EXCEPT !.dl = TRUE] ELSE st.S.code[x]]] ELSE st.S
           S2 == Deliver(S1, i, 0)
           idt == "openid" \in (Range(op.grant) \cap Range(op.scopes)) /\ HasIdt(op.rtype)
       IN [G |-> [SetS(G, S2) EXCEPT !.st.nep = @ + 1],
           pr |-> [pr EXCEPT !.pc = "done", !.out = [Out0 EXCEPT !.code = k, !.at = i, !.idt = idt,
                                                                  !.expin = IF i # 0 THEN st.cfg.l_at ELSE -1]]]
  ELSE IF pr.pc = "az.fail_pkce"
  THEN Done([G EXCEPT !.st.nep = @ + 1], pr, "invalid_request",
            PkceAuthzErr(st, [rtype |-> op.rtype, pkce |-> op.pkce, client |-> op.client]))
  ELSE IF pr.pc = "az.fail_implicit" THEN Done([G EXCEPT !.st.nep = @ + 1], pr, "invalid_grant", "grant_type_not_allowed")
  ELSE r

(* ======================================================================== *)
(* introspection probe (IntrospectToken with the right hint)                *)
(* ======================================================================== *)
ProbeStep(G, pr, f) ==
  LET st == G.st
      op == pr.op
      pc == pr.pc
      hitAT == op.kind = "at" /\ f = "none" /\ ATActive(st, op.tok) /\ st.S.at[op.tok].dl
      hitRT == op.kind = "rt" /\ f = "none" /\ RTActive(st, op.tok) /\ st.S.rt[op.tok].dl /\ ~st.cfg.no_rt_intro
      presentAT == op.kind = "at" /\ f = "none" /\ Has(st.S.at, op.tok) /\ st.S.at[op.tok].present
      presentRT == op.kind = "rt" /\ f = "none" /\ Has(st.S.rt, op.tok) /\ st.S.rt[op.tok].present /\ st.S.rt[op.tok].active
  IN
  IF pc = "pb.at"
  THEN IF hitAT THEN Done(G, pr, "active", "ok")
       ELSE IF op.kind = "at" /\ ~presentAT /\ pr.l.e1 = "" THEN Goto(G, [pr EXCEPT !.l.e1 = "x"], "pb.rt")   \* falls through to the other kind
       ELSE Done(G, pr, "inactive", "introspect_inactive")
  ELSE IF hitRT THEN Done(G, pr, "active", "ok")
       ELSE IF op.kind = "rt" /\ pr.l.e1 = "" THEN Goto(G, [pr EXCEPT !.l.e1 = "x"], "pb.at")
       ELSE Done(G, pr, "inactive", "introspect_inactive")

(* ======================================================================== *)
(* single-write grants and pushed authorization requests                    *)
(* ======================================================================== *)
RawErr(kind) ==     \* an error of the access-token write that the handler returns unwrapped
  CASE kind = "not_found" -> "not_found" [] kind = "inactive" -> "token_inactive" [] OTHER -> "error"
SimpleStep(G, pr, f) ==
  LET st == G.st
      op == pr.op
      pc == pr.pc
      reg == st.reg[op.client]
      req == Range(op.scopes)
      aud == Range(op.aud)
      i == Count(st.S.at) + 1
      j == Count(st.S.rt) + 1
  IN
  CASE pc = "cc.client" ->
         LET r == ClientStep(G, pr, f, "cc.createAT") IN
         IF r.pr.pc # "cc.createAT" THEN r
         ELSE IF ~(req \subseteq reg.scopes) THEN Done(G, pr, "invalid_scope", "scope_not_allowed")
         ELSE IF ~(aud \subseteq reg.aud) THEN Done(G, pr, "invalid_request", "aud_not_allowed")
         ELSE IF Public(op.client) THEN Done(G, pr, "invalid_grant", "public_client_credentials")
         ELSE IF "client_credentials" \notin reg.grants THEN Done(G, pr, "unauthorized_client", "grant_type_not_allowed")
         ELSE Goto([G EXCEPT !.st.nrid = @ + 1], [pr EXCEPT !.l.rid = st.nrid + 1], "cc.createAT")
    [] pc = "cc.createAT" ->
         IF f # "none" THEN Done(G, pr, RawErr(f), "storage_failure")
         ELSE [G |-> [SetS(G, CreateAccessTokenSession(st.S, i, [ATRow(st, pr.l.rid, op.client, req, aud, Subject, "token") EXCEPT !.dl = TRUE])) EXCEPT !.st.nep = @ + 1],
               pr |-> [pr EXCEPT !.pc = "done", !.out = [Out0 EXCEPT !.at = i, !.expin = st.cfg.l_at]]]
    [] pc = "pw.client" ->
         LET r == ClientStep(G, pr, f, "pw.auth") IN
         IF r.pr.pc # "pw.auth" THEN r
         ELSE IF "password" \notin reg.grants THEN Done(G, pr, "unauthorized_client", "grant_type_not_allowed")
         ELSE IF ~(req \subseteq reg.scopes) THEN Done(G, pr, "invalid_scope", "scope_not_allowed")
         ELSE IF ~(aud \subseteq reg.aud) THEN Done(G, pr, "invalid_request", "aud_not_allowed")
         ELSE r
    [] pc = "pw.auth" ->
         IF f = "not_found" \/ (f = "none" /\ op.user # "ok") THEN Done(G, pr, "invalid_grant", "bad_user_credentials")
         ELSE IF f # "none" THEN Done(G, pr, "server_error", "storage_failure")
         ELSE Goto([G EXCEPT !.st.nrid = @ + 1], [pr EXCEPT !.l.rid = st.nrid + 1], "pw.createAT")
    [] pc = "pw.createAT" ->
         IF f # "none" THEN Done(G, pr, RawErr(f), "storage_failure")
         ELSE LET withRT == RScopes(st) = {} \/ req \cap RScopes(st) # {}
                  G1 == SetS(G, CreateAccessTokenSession(st.S, i, ATRow(st, pr.l.rid, op.client, req, aud, "uuid", "token")))
              IN IF withRT THEN Goto(G1, [pr EXCEPT !.l.at = i], "pw.createRT")
                 ELSE [G |-> [SetS(G1, Deliver(G1.st.S, i, 0)) EXCEPT !.st.nep = @ + 1],
                       pr |-> [pr EXCEPT !.pc = "done", !.out = [Out0 EXCEPT !.at = i, !.expin = st.cfg.l_at]]]
    [] pc = "pw.createRT" ->
         IF f # "none" THEN Done(G, pr, "server_error", "storage_failure")
         ELSE LET G1 == SetS(G, CreateRefreshTokenSession(st.S, j, RTRow(st, pr.l.rid, op.client, req, req, aud, "uuid"))) IN
              [G |-> [SetS(G1, Deliver(G1.st.S, pr.l.at, j)) EXCEPT !.st.nep = @ + 1],
               pr |-> [pr EXCEPT !.pc = "done", !.out = [Out0 EXCEPT !.at = pr.l.at, !.rt = j, !.expin = st.cfg.l_at]]]
    [] pc = "pp.client" ->
         IF f # "none" \/ AuthErr(op) # "ok" THEN Done(G, pr, "invalid_client", IF f # "none" THEN "client_lookup_failed" ELSE AuthReason(op))
         ELSE IF op.field = "request_uri" THEN Done(G, pr, "invalid_request", "par_contains_request_uri")
         ELSE Goto(G, pr, "pp.client2")
    [] pc = "pp.client2" ->      \* the request is then validated like an authorization request, which looks the client up again
         IF f # "none" THEN Done(G, pr, "invalid_client", "client_lookup_failed")
         ELSE LET e == AuthzRequestErr(st, op.client, req, aud, op.redir = "sent") IN
              IF e[1] # "ok" THEN Done(G, pr, e[1], e[2]) ELSE Goto(G, pr, "pp.create")
    [] pc = "pp.create" ->
         IF f # "none" THEN Done(G, pr, "server_error", "storage_failure")
         ELSE LET u == Count(st.S.par) + 1 IN
              [G |-> SetS(G, CreatePARSession(st.S, u, [client |-> op.client, exp |-> st.now + st.cfg.l_par, present |-> TRUE, rtype |-> op.rtype,
                                                         req |-> req, aud |-> aud, redirSent |-> op.redir = "sent", dl |-> TRUE])),
               pr |-> [pr EXCEPT !.pc = "done", !.out = [Out0 EXCEPT !.par = u, !.expin = st.cfg.l_par]]]
    [] pc = "up.get" ->
         IF f # "none" \/ GetPARSession(st.S, op.par) # "ok" THEN Done(G, pr, "invalid_request_uri", "par_unknown_or_used")
         ELSE IF st.now > st.S.par[op.par].exp THEN Done(G, pr, "invalid_request_uri", "par_expired")
         ELSE Goto(G, [pr EXCEPT !.l.row = st.S.par[op.par]], "up.del")
    [] OTHER -> \* "up.del": afterwards the request continues as the pushed authorization request
         IF f # "none" THEN Done(G, pr, "server_error", "storage_failure")
         ELSE LET row == pr.l.row
                  G1 == SetS(G, DeletePARSession(st.S, op.par))
                  aop == [op |-> "authorize", client |-> row.client, rtype |-> row.rtype, scopes |-> SetToSeqFixed(row.req), grant |-> SetToSeqFixed(row.req),
                          aud |-> SetToSeqFixedAud(row.aud), redir |-> IF row.redirSent THEN "sent" ELSE "omit", pkce |-> "none"]
              IN IF row.client # op.client THEN Done(G1, pr, "invalid_request", "par_wrong_client")
                 ELSE IF Hybrid(row.rtype) /\ ~row.redirSent THEN Done([G1 EXCEPT !.st.nrid = @ + 1, !.st.nep = @ + 1], pr, "invalid_request", "oidc_redirect_required")
                 ELSE Goto([G1 EXCEPT !.st.nrid = @ + 1], [pr EXCEPT !.op = aop, !.l.rid = st.nrid + 1], IF row.rtype = "token" THEN "az.createAT" ELSE "az.createcode")

(* ======================================================================== *)
(* JWT assertions: each jti is accepted at most once (C15)                  *)
(*  jauth  : private_key_jwt client authentication + client_credentials     *)
(*  jbearer: JWT-bearer authorization grant (RFC 7523)                      *)
(* op.val is the jti of the presented assertion                             *)
(* ======================================================================== *)
AssertionStep(G, pr, f) ==
  LET st == G.st
      op == pr.op
      pc == pr.pc
      j == op.val
      i == Count(st.S.at) + 1
      Issue(client, sub) ==
         LET row == [ATRow(st, st.nrid + 1, client, {"a"}, IF op.op = "jbearer" THEN {"https://issuer.example/token"} ELSE {}, sub, "token") EXCEPT !.dl = TRUE] IN
         [G |-> [SetS(G, CreateAccessTokenSession(st.S, i, row)) EXCEPT !.st.nrid = @ + 1, !.st.nep = @ + 1],
          pr |-> [pr EXCEPT !.pc = "done", !.out = [Out0 EXCEPT !.at = i, !.expin = st.cfg.l_at]]]
  IN
  CASE pc = "ja.client" -> IF f # "none" THEN Done(G, pr, "invalid_client", "client_lookup_failed") ELSE Goto(G, pr, "ja.valid")
    [] pc = "ja.valid" -> IF f # "none" \/ JTIKnown(st.S, j) THEN Done(G, pr, "jti_known", "jti_replayed") ELSE Goto(G, pr, "ja.set")
    [] pc = "ja.set" ->
         IF f # "none" THEN Done(G, pr, RawErr(f), "storage_failure")      \* SetClientAssertionJWT's error is returned as it is
         ELSE IF JTIKnown(st.S, j) THEN Done(G, pr, "jti_known", "jti_replayed")
         ELSE Goto(SetS(G, MarkJTI(st.S, j)), pr, "ja.createAT")
    [] pc = "ja.createAT" -> IF f # "none" THEN Done(G, pr, RawErr(f), "storage_failure") ELSE Issue("J", Subject)
    [] pc = "jb.getkey" -> IF f # "none" THEN Done(G, pr, "invalid_grant", "assertion_key_unknown") ELSE Goto(G, pr, "jb.used")
    [] pc = "jb.used" ->
         IF f # "none" THEN Done(G, pr, "server_error", "storage_failure")
         ELSE IF JTIKnown(st.S, j) THEN Done(G, pr, "jti_known", "jti_replayed") ELSE Goto(G, pr, "jb.scopes")
    [] pc = "jb.scopes" -> IF f # "none" THEN Done(G, pr, "server_error", "storage_failure") ELSE Goto(G, pr, "jb.mark")
    [] pc = "jb.mark" ->
         IF f # "none" \/ JTIKnown(st.S, j) THEN Done(G, pr, "server_error", "jti_replayed")
         ELSE Goto(SetS(G, MarkJTI(st.S, j)), pr, "jb.createAT")
    [] OTHER -> IF f # "none" THEN Done(G, pr, RawErr(f), "storage_failure") ELSE Issue("", "sub-1")   \* jb.createAT

PStep(G, pr0, f) ==
  LET pr == IF f # "none" THEN [pr0 EXCEPT !.l.inj = TRUE] ELSE pr0 IN     \* ghosts are only recorded for fault-free requests
  Settle(CASE pr.op.op = "redeem" -> RedeemStep(G, pr, f)
           [] pr.op.op = "refresh" -> RefreshStep(G, pr, f)
           [] pr.op.op = "revoke" -> RevokeStep(G, pr, f)
           [] pr.op.op = "devpoll" -> DevPollStep(G, pr, f)
           [] pr.op.op = "authorize" -> AuthorizeStep(G, pr, f)
           [] pr.op.op \in {"jauth", "jbearer"} -> AssertionStep(G, pr, f)
           [] pr.op.op \in {"ccreds", "password", "push", "usepar"} -> SimpleStep(G, pr, f)
           [] OTHER -> ProbeStep(G, pr, f))

(* Running one request to completion without faults.  The refinement claim
   "a Steps behaviour with one process and no fault is a Grants step" is the
   invariant SeqRefines of MCSteps.tla. *)
RECURSIVE RunSeq(_, _)
RunSeq(G, pr) == IF pr.pc = "done" THEN [G |-> G, pr |-> pr] ELSE LET r == PStep(G, pr, "none") IN RunSeq(r.G, r.pr)

(* ---- C18 predicates over one finished faulted request ----------------------- *)
TxBalanced(log) ==
  \/ log = <<>> \/ log = <<"begin_fail">>
  \/ log = <<"begin", "commit">>
  \/ log = <<"begin", "rollback">> \/ log = <<"begin", "rollback_fail">>
  \/ log = <<"begin", "commit_fail", "rollback">> \/ log = <<"begin", "commit_fail", "rollback_fail">>
ActiveSet(st) == {<<"at", i>> : i \in {x \in DOMAIN st.S.at : ATActive(st, x)}}
                 \cup {<<"rt", j>> : j \in {x \in DOMAIN st.S.rt : RTActive(st, x)}}
                 \cup {<<"code", k>> : k \in {x \in DOMAIN st.S.code : st.S.code[x].active}}
                 \cup {<<"dev", d>> : d \in {x \in DOMAIN st.S.dev : st.S.dev[x].present}}
Usable(st) ==   \* credentials somebody holds and the server honours
  {t \in ActiveSet(st) :
     CASE t[1] = "at" -> st.S.at[t[2]].dl [] t[1] = "rt" -> st.S.rt[t[2]].dl
       [] t[1] = "code" -> st.S.code[t[2]].dl [] OTHER -> st.S.dev[t[2]].dl}
=============================================================================
