------------------------------- MODULE TblHmac -------------------------------
(***************************************************************************)
(* C06: which opaque credentials and which JWT access tokens are accepted.  *)
(* Symbolic model: a credential is <<prefix, key, mac>> where               *)
(* mac = MAC(secret, hash, key) for an injective uninterpreted MAC; it is   *)
(* stored under its mac ("signature").  A presented string is accepted iff  *)
(* it is well formed and its mac authenticates its key under the first      *)
(* usable secret of  <<global>> \o rotated ; a secret shorter than 32 bytes *)
(* is refused (validation stops with an error when it meets one).           *)
(* Rows: credential kind x mutation class x secret/hash configuration at    *)
(* presentation time; expected verdict for Validate and for the endpoint    *)
(* that consumes the credential, where a refusal must not change any state. *)
(***************************************************************************)
EXTENDS Integers, Sequences, FiniteSets, TLC, Json, IOUtils, SequencesExt

Kinds == {"code", "at", "rt", "dev"}
(* all credentials are minted under secret S1 with the default hash *)
Configs ==
  { [name |-> "same",            global |-> "S1", rotated |-> <<>>,              hash |-> "default"],
    [name |-> "rotated_1",       global |-> "S2", rotated |-> <<"S1">>,          hash |-> "default"],
    [name |-> "rotated_last",    global |-> "S2", rotated |-> <<"S3", "S1">>,    hash |-> "default"],
    [name |-> "rotated_first",   global |-> "S2", rotated |-> <<"S1", "S3">>,    hash |-> "default"],
    [name |-> "forgotten",       global |-> "S2", rotated |-> <<"S3">>,          hash |-> "default"],
    [name |-> "short_before",    global |-> "S2", rotated |-> <<"SHORT", "S1">>, hash |-> "default"],
    [name |-> "short_after",     global |-> "S2", rotated |-> <<"S1", "SHORT">>, hash |-> "default"],
    [name |-> "short_global",    global |-> "SHORT", rotated |-> <<"S1">>,       hash |-> "default"],
    [name |-> "prefix_32_equal", global |-> "S1x",   rotated |-> <<>>,           hash |-> "default"],   \* differs from S1 only after byte 32
    [name |-> "other_hash",      global |-> "S1", rotated |-> <<>>,              hash |-> "sha256"],
    \* no current secret at all, only rotated ones (an empty global secret is skipped, not used as a key)
    [name |-> "rotated_only",           global |-> "", rotated |-> <<"S1">>,        hash |-> "default"],
    [name |-> "rotated_only_last",      global |-> "", rotated |-> <<"S3", "S1">>,  hash |-> "default"],
    [name |-> "rotated_only_forgotten", global |-> "", rotated |-> <<"S3">>,        hash |-> "default"] }

Mutations ==
  { "identity", "key_bitflip", "mac_bitflip", "key_truncate", "key_extend", "mac_truncate", "mac_extend",
    "mac_of_other_token", "key_of_other_token", "empty_key", "empty_mac", "no_separator", "extra_separator",
    "std_alphabet", "padded", "whitespace", "foreign_secret" }
PrefixMutations == {"prefix_removed", "prefix_other_kind", "prefix_altered"}     \* the statement does not talk about the prefix

(* first usable secret decides; a short secret aborts validation *)
RECURSIVE Authenticates(_, _, _)
Authenticates(keys, i, hash) ==
  IF i > Len(keys) THEN FALSE
  ELSE IF keys[i] = "SHORT" THEN FALSE
  ELSE IF keys[i] \in {"S1", "S1x"} /\ hash = "default" THEN TRUE           \* the signing key is the first 32 bytes of the secret
  ELSE Authenticates(keys, i + 1, hash)

KeysOf(cfg) == (IF cfg.global = "" THEN <<>> ELSE <<cfg.global>>) \o cfg.rotated
Accept(mut, cfg) == mut = "identity" /\ Authenticates(KeysOf(cfg), 1, cfg.hash)

(* the lifetime configuration must not matter: with unlimited refresh tokens (no expiry in the
   session) and with session-less expiry (requested_at + lifetime) the same checks apply *)
Lifetimes == {"finite", "unlimited_refresh"}
(* the endpoint that consumes a code, a refresh token or a device code also has to MINT, which needs a current
   secret; introspection of an access token does not *)
Endpoint(k, m, c) == Accept(m, c) /\ (k = "at" \/ c.global # "")
(* configured entropy of the random part in bytes (0 = not configured): freshly minted credentials carry at least the
   configured entropy and never less than the 32-byte floor; varied on the untouched presentations only *)
Entropies == {0, 8, 48}
KeyMin(e) == IF e > 32 THEN e ELSE 32
Rows == { [kind |-> k, mut |-> m, cfg |-> c, life |-> l, entropy |-> e, keymin |-> KeyMin(e),
           accept |-> Accept(m, c), endpoint |-> Endpoint(k, m, c), undet |-> FALSE] :
            k \in Kinds, m \in Mutations, c \in Configs, l \in Lifetimes, e \in Entropies }
Valid(r) == r.mut = "identity" \/ r.entropy = 0
RowsV == { r \in Rows : Valid(r) }
        \cup { [kind |-> k, mut |-> m, cfg |-> c, life |-> "finite", entropy |-> 0, keymin |-> 32, accept |-> FALSE, endpoint |-> FALSE, undet |-> TRUE] :
            k \in Kinds, m \in PrefixMutations, c \in {x \in Configs : x.name = "same"} }

(* JWT access tokens: only an untouched token signed by the configured key with its asymmetric algorithm *)
JwtMutations == { "identity", "alg_none", "alg_none_signature_kept", "hs256_with_public_key", "signed_by_other_key", "payload_edited",
                  "header_edited_alg_rs384", "signature_stripped", "signature_of_other_token", "two_segments", "four_segments",
                  "expired_claim_edited", "garbage",
                  \* protected headers that make a JOSE library leave its usual path before it has looked at the signature
                  "crit_string_payload_edited", "crit_string_alg_none", "crit_unknown_extension", "embedded_jwk_signed_by_other_key",
                  "b64_false_payload_edited", "header_not_an_object",
                  \* the operator replaces the signing key of the running server (same kid, or none): from then on the configured key is
                  \* the new one -- a token signed by the retired key is refused, a token minted afterwards is accepted
                  "retired_key_after_rotation", "current_key_after_rotation" }
JwtGenuine == {"identity", "current_key_after_rotation"}
(* validator: "stored" = the introspection handler that looks the token's signature up in the store;
              "stateless" = StatelessJWTValidator, which trusts the JWT alone (no revocation, by design) and rebuilds the
              request from the claims.  age: presented before / after the token's expiry.  scope: the scope the resource
              server asks for is / is not among the granted ones.  sess: the session type the application handed to the
              token endpoint (the harness's OpenID Connect session or the library's oauth2.JWTSession). *)
JwtRow(m, v, a, sc, se) == [kind |-> "jwt", mut |-> m, validator |-> v, age |-> a, scope |-> sc, sess |-> se,
                            accept |-> m \in JwtGenuine /\ a = "fresh" /\ sc = "covered"]
JwtRows == { JwtRow(m, v, "fresh", "covered", se) : m \in JwtMutations, v \in {"stored", "stateless"}, se \in {"openid", "jwtsession"} }
           \cup { JwtRow("identity", v, a, sc, se) : v \in {"stored", "stateless"}, a \in {"fresh", "expired"}, sc \in {"covered", "not_covered"},
                                                    se \in {"openid", "jwtsession"} }

ASSUME \A c \in Configs : Accept("identity", c) <=> c.name \in {"same", "rotated_1", "rotated_last", "rotated_first", "short_after", "prefix_32_equal", "rotated_only", "rotated_only_last"}
ASSUME \A r \in RowsV : r.mut # "identity" => ~r.accept
ASSUME \A r \in RowsV : r.endpoint => r.accept
ASSUME \A r \in RowsV : r.keymin >= 32 /\ r.keymin >= r.entropy
ASSUME PrintT(<<"ROWS", Cardinality(RowsV), Cardinality(JwtRows)>>)
ASSUME JsonSerialize(IOEnv.VERIF_TABLE_HMAC, SetToSeq(RowsV))
ASSUME JsonSerialize(IOEnv.VERIF_TABLE_JWT, SetToSeq(JwtRows))

VARIABLE x
Init == x = 0
Next == x' = x
Spec == Init /\ [][Next]_x
=============================================================================
