SPECIFICATION TSpec
CHECK_DEADLOCK FALSE
POSTCONDITION Consumed
