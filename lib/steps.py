"""Checks decided by the step-level specification (Steps/MCSteps/TraceSteps): C18, C19
(and the jti race of C15, see tables.py).

  C18: one request, every storage call index as fault point, every error kind, singles
       exhaustively (pairs at thorough), transactional store with real rollback and the
       plain reference store, followed by a legitimate retry and a replay.
  C19: two / three requests in flight, every interleaving of their storage calls forced on
       real goroutines through the storage gate; plus (outside the specification) the same
       harness free-running under the Go race detector.
"""
import json, os, random, re, sys, time
from vlib import *
import stateful

Q, T = "quick", "thorough"
ALLPROPS = [f"C{i:02d}" for i in range(1, 21)]

C18_INV = ["NoTokensOnFailure", "TxLogBalanced", "RollbackRestores", "FailClosed", "DeliveredOnlyOnSuccess",
           "RetryStillGuarded", "StateInv", "TypeOK", "SeqRefines"]
C19_INV = ["NoTokensOnFailure", "HandedOutActiveOrKilledByPeer", "MintFresh", "TypeOK", "SeqRefines"]


def fp_steps(m):
    op = m["op"]["op"] if isinstance(m.get("op"), dict) else "?"
    return [f"{op}/{m.get('pc','')}/{m.get('f','')}/{x}" for x in sorted(m["fields"])]


def classify_steps(m, prop):
    """mismatch recorded by TraceSteps for a start/step/join line"""
    f = set(m["fields"])
    op = m["op"]["op"] if isinstance(m.get("op"), dict) else "?"
    where = f"{m['ev']} p={m.get('p')} pc={m.get('pc')} fault={m.get('f') or 'none'} ({op})"
    texts, viol = [], False
    O = sorted(x for x in f if x.startswith("O."))
    if O:
        own = {"O.TokensOnFailure": "C18", "O.TxUnbalanced": "C18", "O.RollbackDidNotRestore": "C18", "O.NotFailClosed": "C18",
               "O.DuplicateValue": "C19"}
        for x in O:
            if own[x] == prop or (prop == "C15" and x == "O.DuplicateValue"):
                viol = True
        texts.append(f"{where}: observation violates {','.join(O)} (observed {json.dumps(m['obs'])[:400]})")
    e, o = m["exp"], m["obs"]
    if "res" in f:
        unsafe = e.get("res") not in SUCCESS and o.get("res") in SUCCESS
        if unsafe:
            viol = True
        texts.append(f"{where}: result differs (spec {e.get('res')}/{e.get('reason')}, impl {o.get('res')})" + (" UNSAFE" if unsafe else ""))
    if "issued" in f:
        more = (e.get("at") == 0 and o.get("at") != 0) or (e.get("rt") == 0 and o.get("rt") != 0)
        if more:
            viol = True
        texts.append(f"{where}: issued credentials differ (spec at={e.get('at')} rt={e.get('rt')}, impl at={o.get('at')} rt={o.get('rt')})")
    if "proj" in f:
        d = {k: (e["proj"][k], o["proj"].get(k)) for k in e.get("proj", {}) if e["proj"][k] != o["proj"].get(k)}
        if prop == "C19" and "method" not in f:
            viol = True  # the storage call the spec names was made, but it did not have the specified atomic effect
        texts.append(f"{where}: store projection after the call differs {d}")
    if "probe_active" in f:
        for k in ("extra_at", "extra_rt"):
            for x in e.get(k, []):
                viol = True
                texts.append(f"{where}: {k[6:]} #{x['id']} active in the implementation, dead in the specification ({x['why']})")
        texts.append(f"{where}: active sets differ (spec at={e.get('at')} rt={e.get('rt')}, impl at={o.get('at')} rt={o.get('rt')})")
        if prop == "C19":
            viol = True
    if "probe_payload" in f:
        texts.append(f"{where}: payload of active tokens differs")
    if "done" in f and e.get("done") and not o.get("done") and e.get("res") not in SUCCESS:
        # the specification ends the request here with a refusal; the implementation carries on
        viol = True
        texts.append(f"{where}: the specification refuses here ({e.get('res')}/{e.get('reason')}) but the implementation carried on to {o.get('next')}")
    for k in ("method", "next", "done", "txlog", "idt"):
        if k in f:
            texts.append(f"{where}: {k} differs (spec {e.get(k)}, impl {o.get(k)})")
    return ("violation" if viol else "note"), "; ".join(texts)


def any_owner_violation(m):
    for p in ALLPROPS:
        v, text = classify(m, p)
        if v == "violation":
            return v, text
    return classify(m, "C18")


def run_part(prop, binary, wd, tag, scenarios, maxfaults, kinds, invariants, mode, cap, seed, module="MCSteps"):
    mc = model_check_steps(scenarios, maxfaults, kinds, invariants, wd, module=module)
    hs, gstat = gen_steps(scenarios, maxfaults, kinds, wd, mode=mode, num=cap, seed=seed, module=module)
    total = len(hs)
    if len(hs) > cap:
        random.Random(seed).shuffle(hs)
        hs = hs[:cap]
    traces = exec_histories(binary, hs, wd, tag, test="TestSteps")
    rep = validate_traces(traces, wd, module="TraceSteps")
    log(f"[steps] {scenarios} faults<={maxfaults}: {len(hs)}/{total} schedules executed, {rep['lines']} lines, stats {rep['stats']}")
    return dict(mc=mc, histories=hs, total=total, rep=rep, scenarios=scenarios, maxfaults=maxfaults)


def report(prop, parts, binary, wd, findings):
    viol, notes, known = {}, {}, {}
    for part in parts:
        hs = part["histories"]
        for m in part["rep"]["mismatches"]:
            if m.get("prop") == "steps":
                v, text = classify_steps(m, prop)
                fps = fp_steps(m)
            else:
                v, text = any_owner_violation(m) if prop == "C18" else classify(m, prop)
                fps = stateful.fingerprint(m)
            key = f"{part['scenarios']}:{hs[m['h']-1].get('name','')}:" + (fps[0] if fps else text[:60])
            if v == "violation":
                kf = [f for f in findings if f["property"] == prop and any(fp == f["fingerprint"] for fp in fps)]
                if kf:
                    known.setdefault(kf[0]["id"], (kf[0], m, text))
                    continue
                viol.setdefault(key, []).append((m, text, part))
            else:
                notes.setdefault(key, []).append((m, text))
    for k, v in sorted(notes.items()):
        log(f"NOTE x{len(v)} [{k}] {v[0][1][:500]}")
    for fid, (f, m, text) in known.items():
        print(f"KNOWN-FINDING: property={prop} {f['what']}")
    nviol, replays = 0, []
    for key, lst in sorted(viol.items()):
        m, text, part = lst[0]
        h = part["histories"][m["h"] - 1]
        # confirm by re-execution
        tr = exec_histories(binary, [h], wd, "confirm", shards=1, test="TestSteps")
        rep2 = validate_traces(tr, wd, module="TraceSteps")
        again = False
        for x in rep2["mismatches"]:
            vv = classify_steps(x, prop)[0] if x.get("prop") == "steps" else (any_owner_violation(x)[0] if prop == "C18" else classify(x, prop)[0])
            again = again or vv == "violation"
        if not again:
            log(f"UNCONFIRMED (not reproduced on re-execution, ignored): {text[:300]}")
            continue
        name = hashlib.sha1(key.encode()).hexdigest()[:10]
        path = write_replay(prop, name, {"property": prop, "kind": "steps", "history": h, "fingerprint": key, "explanation": text, "occurrences": len(lst)})
        log(f"VIOLATION-DETAIL x{len(lst)} [{key}] {text[:900]}")
        print(f"VIOLATION property={prop} replay={path}")
        replays.append(path)
        nviol += 1
    return nviol, notes, known, replays


def selftest_steps(binary, hs, wd):
    """corrupt recorded fields of a step trace: the validator must reject them"""
    hs = hs[:40]
    tr = exec_histories(binary, hs, wd, "selfs", shards=1, test="TestSteps")
    lines = [json.loads(l) for l in open(tr[0])]
    want = []
    done_h = set()
    for idx, e in enumerate(lines):
        if e["ev"] == "step" and e["h"] not in done_h:
            kinds = ["method", "proj", "res"]
            kinds = kinds[len(want) % 3:] + kinds[:len(want) % 3]
            kind = None
            for k in kinds:
                if k == "method" and not e["done"]:
                    e["method"] = "GetClient" if e["method"] != "GetClient" else "Commit"
                elif k == "proj" and e.get("proj"):
                    e["proj"]["n_at"] += 1
                elif k == "res" and e["done"]:
                    e["obs"]["res"] = "ok" if e["obs"]["res"] != "ok" else "server_error"
                else:
                    continue
                kind = k
                break
            if kind is None:
                continue
            want.append((kind, e["h"], idx + 1))
            done_h.add(e["h"])
            if len(want) >= 3:
                break
    if len(want) < 2:
        raise Indeterminate("self-test (steps): could not place corruptions")
    ctf = os.path.join(wd, "selfs.corrupt.ndjson")
    with open(ctf, "w") as f:
        for e in lines:
            f.write(json.dumps(e) + "\n")
    rep = validate_traces([ctf], wd, module="TraceSteps")
    got = {(m["h"], m["line"]) for m in rep["mismatches"]}
    for kind, h, line in want:
        if (h, line) not in got:
            raise Indeterminate(f"self-test FAILED: corrupted {kind} at history {h} line {line} was accepted by the validator")
    log(f"[selftest] {len(want)} corrupted step records rejected at the corrupted step: {want}")
    return len(want)


RACE_RE = re.compile(r"WARNING: DATA RACE(.*?)={18}", re.S)


def race_sites(out):
    """unordered pairs of access sites (innermost fosite function of each access) per race report"""
    pairs = {}
    for blk in RACE_RE.findall(out):
        sites = []
        for sec in re.split(r"\n\s*\n", blk):
            if re.match(r"\s*(Read|Write|Previous read|Previous write) at", sec.strip()):
                fr = re.findall(r"^\s+(github\.com/ory/fosite\S*)\(\)\s*$", sec, re.M)
                if fr:
                    sites.append(fr[0].replace("github.com/ory/fosite", "fosite"))
        if len(sites) >= 2:
            key = " <-> ".join(sorted(sites[:2]))
            pairs.setdefault(key, blk[:3000])
    return pairs


def check(prop, tier, seed, replay=None):
    t0 = time.time()
    wd = scratch(f"{prop}_{tier}")
    binary = build_harness()
    findings = [f for f in load_findings() if f.get("status") == "open"]
    if replay:
        rp = json.load(open(replay))
        if rp.get("kind") == "race":
            return race_part(prop, tier, seed, wd, findings, only_report=True)[0] and 1 or 0
        tr = exec_histories(binary, [rp["history"]], wd, "replay", shards=1, test="TestSteps")
        rep = validate_traces(tr, wd, module="TraceSteps")
        bad = 0
        for m in rep["mismatches"]:
            v, text = classify_steps(m, prop) if m.get("prop") == "steps" else (any_owner_violation(m) if prop == "C18" else classify(m, prop))
            log(("VIOLATION-DETAIL " if v == "violation" else "NOTE ") + text)
            bad += v == "violation"
        if bad:
            print(f"VIOLATION property={prop} replay={replay}")
            return 1
        log("replay: no violation")
        return 0

    parts = []
    extra = {}
    if prop == "C18":
        cap = 2500 if tier == Q else 60000
        parts.append(run_part(prop, binary, wd, "tx1", "ScnFaultTx", 1, "FaultKinds", C18_INV, "bfs", cap, seed))
        parts.append(run_part(prop, binary, wd, "mem1", "ScnFaultMem", 1, "FaultKinds", C18_INV, "bfs", cap, seed))
        if tier == T:
            parts.append(run_part(prop, binary, wd, "tx2", "ScnFaultTx", 2, "FaultKinds", C18_INV, "bfs", cap, seed))
            parts.append(run_part(prop, binary, wd, "mem2", "ScnFaultMem", 2, "FaultKinds", C18_INV, "bfs", cap, seed))
        level = "fault_enumeration"
    else:
        cap = 3000 if tier == Q else 30000
        mode = "sim" if tier == Q else "bfs"
        parts.append(run_part(prop, binary, wd, "c2", "ScnConc2", 0, "FaultKinds", C19_INV, mode, cap, seed))
        parts.append(run_part(prop, binary, wd, "c3", "ScnConc3", 0, "FaultKinds", C19_INV, mode, cap, seed))
        # three complete requests at once: the design is model-checked exhaustively, the schedules are always sampled
        parts.append(run_part(prop, binary, wd, "c3b", "ScnConc3Big", 0, "FaultKinds", C19_INV, "sim", 800 if tier == Q else 10000, seed))
        level = "model_checking"
    nviol, notes, known, replays = report(prop, parts, binary, wd, findings)
    ncorrupt = selftest_steps(binary, parts[0]["histories"], wd)
    if prop == "C19":
        lv, lextra = lin_part(prop, tier, seed, wd, binary)
        nviol += lv
        rv, extra = race_part(prop, tier, seed, wd, findings)
        nviol += rv
        extra.update(lextra)

    evals = sum(p["rep"]["lines"] for p in parts)
    nsched = sum(len(p["histories"]) for p in parts)
    distinct = len({json.dumps([h.get("name"), h["sched"]], sort_keys=True) for p in parts for h in p["histories"]})
    sample = parts[0]["histories"][0]
    cov = {
        "evaluations": evals, "distinct_nontrivial": distinct,
        "rule": "a case is one complete schedule generated by TLC from MCSteps.tla (scenario, order of storage steps of the in-flight requests, position and kind of injected storage errors), forced on the real code through the storage gate; distinct = distinct (scenario, schedule); non-trivial = all (every schedule contains at least one storage step of a token-issuing or revoking request)",
        "samples": [sample, parts[-1]["histories"][-1]],
        "states": sum(p["mc"]["distinct"] for p in parts), "transitions": sum(p["mc"]["generated"] for p in parts),
        "traces_validated_against_impl": nsched,
        "exhaustive": all(len(p["histories"]) == p["total"] for p in parts),
        "parts": [{"scenarios": p["scenarios"], "max_faults": p["maxfaults"], "schedules_executed": len(p["histories"]), "schedules_total": p["total"],
                   "design_model_check": p["mc"], "trace_validation": p["rep"]["stats"]} for p in parts],
        "notes": {k: len(v) for k, v in notes.items()}, "known_findings_seen": sorted(known.keys()),
        "selftest_corruptions_rejected": ncorrupt, "violation_replays": replays,
    }
    cov.update(extra)
    write_evidence(prop, tier, seed, level, cov, time.time() - t0, nviol, [
        "TLC 1.8, CommunityModules Json; Go 1.26 testing/synctest; the storage gate parks every request before each storage-interface call",
        "fault kinds: generic error, ErrNotFound, ErrInactiveToken (with the stored request), ErrSerializationFailure; rollback restores a snapshot even if the rollback call reports an error",
        "scenarios are the ones listed in MCSteps.tla (ScnFault*, ScnConc*)"])
    shutil.rmtree(wd, ignore_errors=True)
    log(f"[done] {prop} {tier}: violations={nviol} wall={time.time()-t0:.1f}s")
    return 1 if nviol else 0


def lin_validate(trace_file, wd, tag):
    """TLC looks for a linearization of every recorded history (StoreLin.tla); returns (reached, lines, stuck event)."""
    sub = os.path.join(wd, "lin_" + tag)
    os.makedirs(sub, exist_ok=True)
    rep = os.path.join(sub, "report.json")
    cfg = "SPECIFICATION LSpec\nCONSTRAINT HighWater\nPOSTCONDITION Report\nCHECK_DEADLOCK FALSE\n"
    rc, out = tlc(sub, "StoreLin", cfg, ["-workers", "1"], env={"VERIF_TRACE": trace_file, "VERIF_REPORT": rep}, heap="6g", timeout=3000, cfg_name="lin.cfg")
    if not os.path.exists(rep) or "No error has been found" not in out:
        tail = "\n".join(l for l in out.splitlines() if not l.startswith(("Linting", "Semantic", "Parsing")))[-4000:]
        raise Indeterminate("linearizability validation did not complete:\n" + tail)
    r = json.load(open(rep))
    m = re.search(r"(\d+) states generated, (\d+) distinct states found", out)
    r["tlc_states"] = int(m.group(2)) if m else 0
    shutil.rmtree(sub, ignore_errors=True)
    return r


def lin_part(prop, tier, seed, wd, binary, replay_scn=None):
    """C19 'every individual store operation takes effect atomically': free-running goroutines on the reference
    store, call/return events ordered by an atomic counter, TLC searches a linearization (StoreLin.tla)."""
    n = "1500" if tier == Q else "30000"
    tf = os.path.join(wd, "lin.trace.ndjson")
    p = run_harness(binary, "TestLin", {"VERIF_LIN_OUT": tf, "VERIF_N": n, "VERIF_SEED": str(seed)}, timeout=3000)
    out = p.stdout + p.stderr
    st = re.search(r"LIN-STATS (\{.*\})", out)
    if not st or not os.path.exists(tf):
        raise Indeterminate("linearizability driver did not run:\n" + out[-3000:])
    stats = json.loads(st.group(1))
    nviol, bad_scn = 0, []
    for dl in sorted(set(re.findall(r"LIN-DEADLOCK scenario=(\S+)", out))):
        path = write_replay(prop, "lin_deadlock_" + dl, {"property": prop, "kind": "lin", "scenario": dl, "what": "store calls did not return within 10 s (deadlock)"})
        log(f"VIOLATION-DETAIL [lin/{dl}/deadlock] concurrent store calls of scenario {dl} did not return (lock-order deadlock)")
        print(f"VIOLATION property={prop} replay={path}")
        nviol += 1
    lines = [json.loads(x) for x in open(tf)]
    states = 0
    for attempt in range(12):
        cur = os.path.join(wd, f"lin.cur{attempt}.ndjson")
        with open(cur, "w") as f:
            for e in lines:
                f.write(json.dumps(e) + "\n")
        r = lin_validate(cur, wd, str(attempt))
        states += r["tlc_states"]
        if r["reached"] > r["lines"]:
            break
        h = r["stuck"]["h"]
        hist = [e for e in lines if e["h"] == h]
        scn = hist[0]["scn"]
        bad_scn.append(scn)
        path = write_replay(prop, "lin_" + hashlib.sha1(json.dumps(hist).encode()).hexdigest()[:10],
                            {"property": prop, "kind": "lin", "scenario": scn, "history": hist, "stuck_at": r["stuck"],
                             "what": "no order of the critical sections of these concurrent store calls, each between its call and its return, explains the logged results"})
        calls = "; ".join(f"p{e['p']} {e['m']}({e['k']},{e['r']})" if e["ev"] == "call" else f"p{e['p']} -> {e['res']}" for e in hist if e["ev"] != "reset")
        log(f"VIOLATION-DETAIL [lin/{scn}] not linearizable: {calls[:600]}")
        print(f"VIOLATION property={prop} replay={path}")
        nviol += 1
        lines = [e for e in lines if e["scn"] != scn]     # one report per scenario; keep validating the others
        if not lines:
            break
    else:
        raise Indeterminate("linearizability validation: too many failing scenarios")
    log(f"[lin] {stats['trials']} free-running trials of {len(stats['per_scenario'])} store scenarios, {stats['distinct_histories']} distinct histories, "
        f"TLC searched {states} states, non-linearizable scenarios: {bad_scn or 'none'}")
    return nviol, {"store_linearizability": dict(stats, tlc_states=states, non_linearizable_scenarios=bad_scn,
                                                 method="free-running goroutines on storage.MemoryStore; call/return events ordered by an atomic counter; StoreLin.tla (critical sections of Store.tla operators) searched by TLC for a linearization")}


def race_part(prop, tier, seed, wd, findings, only_report=False):
    """Outside the specification: the harness free-running under the Go race detector."""
    rb = build_harness(race=True)
    n = "300" if tier == Q else "4000"
    nviol, extra = 0, {"race_detector": {}}
    for phase in ("disjoint", "sharedcode"):
        p = run_harness(rb, "TestRace", {"VERIF_SEED": str(seed), "VERIF_RACE_ITERS": n, "VERIF_RACE_PHASE": phase, "GORACE": "halt_on_error=0"}, timeout=3000)
        out = p.stdout + p.stderr
        pairs = race_sites(out)
        panics = re.findall(r"RACE-HARNESS (?:PANIC|DEADLOCK)[^\n]*|fatal error: [^\n]*", out)
        ran = re.search(r"RACE-HARNESS ops=(\d+) goroutines=(\d+)", out)
        if not ran and not panics:
            raise Indeterminate("race stress did not run:\n" + out[-3000:])
        for key, blk in sorted(pairs.items()):
            kf = [f for f in findings if f["property"] == prop and f.get("phase", phase) == phase and re.fullmatch(f["fingerprint"], key)]
            if kf:
                known_print(prop, kf[0])
                continue
            path = write_replay(prop, "race_" + hashlib.sha1((phase + key).encode()).hexdigest()[:10],
                                {"property": prop, "kind": "race", "phase": phase, "sites": key, "report": blk})
            log(f"VIOLATION-DETAIL data race ({phase}) between {key}")
            print(f"VIOLATION property={prop} replay={path}")
            nviol += 1
        for x in sorted({re.sub(r"goroutine=\d+", "goroutine=N", y) for y in panics}):
            path = write_replay(prop, "race_panic_" + phase, {"property": prop, "kind": "race", "phase": phase, "sites": x, "report": out[-4000:]})
            log(f"VIOLATION-DETAIL {x}")
            print(f"VIOLATION property={prop} replay={path}")
            nviol += 1
        extra["race_detector"][phase] = {"ops": int(ran.group(1)) if ran else 0, "goroutines": int(ran.group(2)) if ran else 0,
                                         "race_site_pairs": sorted(pairs.keys()), "panics_or_deadlocks": len(panics)}
        log(f"[race] phase={phase} ops={ran.group(1) if ran else 0} race site pairs={len(pairs)} panics/deadlocks/fatal={len(panics)}")
    return nviol, extra


_known_printed = set()


def known_print(prop, f):
    if f["id"] not in _known_printed:
        _known_printed.add(f["id"])
        print(f"KNOWN-FINDING: property={prop} {f['what']}")
