"""Shared machinery of the /verif checks: building the Go harness against /repo's current
working tree, running TLC (exhaustive model checking, behaviour generation, trace
validation), classifying specification-vs-implementation mismatches, evidence files."""
import json, os, re, shutil, subprocess, sys, time, hashlib, random, fcntl
from concurrent.futures import ThreadPoolExecutor

VERIF = os.path.dirname(os.path.dirname(os.path.abspath(__file__)))
REPO = os.environ.get("VERIF_REPO", "/repo")
WORK = os.path.join(VERIF, ".work")
SPEC = os.path.join(VERIF, "spec")
HARNESS = os.path.join(VERIF, "harness")
TLAJARS = "/opt/veriftools/tla/tla2tools.jar:/opt/veriftools/tla/CommunityModules-deps.jar"
NCPU = os.cpu_count() or 4

GOENV = dict(os.environ, GOFLAGS="-mod=mod", GOPROXY="off", GOSUMDB="off", GOTOOLCHAIN="local")


class Indeterminate(Exception):
    """Infrastructure / vacuity problem: the check can neither confirm nor refute (exit 2)."""


def log(*a):
    print(*a, flush=True)


def scratch(name):
    """a scratch directory private to this invocation (two runs of the same check must not share one), removed at exit"""
    import atexit
    d = os.path.join(WORK, f"{name}.{os.getpid()}")
    shutil.rmtree(d, ignore_errors=True)
    os.makedirs(d)
    atexit.register(lambda: shutil.rmtree(d, ignore_errors=True))
    return d


# ---------------------------------------------------------------------------- Go harness
def build_harness(race=False):
    """(Re)build the conformance harness test binary against /repo's current working tree.
    The binary is private to this invocation (a later build for another check must not replace a binary that is
    still being executed) and removed at exit. Builds are serialised by a lock that bin/try_mutant and
    bin/seeded_sweep hold while a seeded change is applied to /repo, so a check that starts meanwhile waits
    instead of building the changed tree."""
    import atexit
    os.makedirs(os.path.join(WORK, "bin"), exist_ok=True)
    out = os.path.join(WORK, "bin", f"fdrive.{os.getpid()}" + (".race" if race else "") + ".test")
    lock = None
    if not os.environ.get("VERIF_BUILD_LOCK_HELD"):
        lock = open(os.path.join(WORK, "bin", ".lock"), "w")
        fcntl.flock(lock, fcntl.LOCK_EX)
    try:
        shutil.copy(os.path.join(REPO, "go.sum"), os.path.join(HARNESS, "go.sum"))
        cmd = ["go1.26", "test", "-c", "-tags", "verif", "-o", out]
        if race:
            cmd.append("-race")
        elif os.environ.get("VERIF_COVER_DIR"):      # bin/coverage: which statements of ory/fosite do the checks reach?
            cmd += ["-cover", "-covermode=set", "-coverpkg=github.com/ory/fosite/..."]
        cmd.append(".")
        t0 = time.time()
        p = subprocess.run(cmd, cwd=HARNESS, env=GOENV, capture_output=True, text=True)
        if p.returncode != 0:
            raise Indeterminate("harness build failed:\n" + p.stdout + p.stderr)
        log(f"[build] harness built in {time.time()-t0:.1f}s")
    finally:
        if lock:
            fcntl.flock(lock, fcntl.LOCK_UN)
    atexit.register(lambda: os.path.exists(out) and os.remove(out))
    return out


def run_harness(binary, test, env, timeout=1800):
    e = dict(GOENV)
    e.update(env)
    args = [binary, "-test.run", "^" + test + "$", "-test.timeout", "60m"]
    if os.environ.get("VERIF_COVER_DIR") and ".race." not in binary:
        os.makedirs(os.environ["VERIF_COVER_DIR"], exist_ok=True)
        args.append("-test.coverprofile=" + os.path.join(os.environ["VERIF_COVER_DIR"], f"cov.{os.getpid()}.{time.time_ns()}.out"))
    p = subprocess.run(args, env=e, capture_output=True, text=True, timeout=timeout)
    return p


def exec_histories(binary, histories, wd, tag="t", shards=None, test="TestDrive"):
    """Execute histories on the real code; returns list of trace files (one per shard)."""
    shards = shards or min(NCPU, max(1, len(histories) // 20))
    inp = os.path.join(wd, f"{tag}.hist.ndjson")
    with open(inp, "w") as f:
        for i, h in enumerate(histories):
            h = dict(h)
            h["h"] = i + 1
            f.write(json.dumps(h) + "\n")

    def one(i):
        out = os.path.join(wd, f"{tag}.trace.{i}.ndjson")
        p = run_harness(binary, test, {"VERIF_IN": inp, "VERIF_OUT": out, "VERIF_SHARD": f"{i}/{shards}"})
        if p.returncode != 0 or not os.path.exists(out):
            raise Indeterminate(f"harness driver failed (shard {i}):\n{p.stdout[-3000:]}\n{p.stderr[-3000:]}")
        return out

    with ThreadPoolExecutor(shards) as ex:
        return list(ex.map(one, range(shards)))


# ---------------------------------------------------------------------------- TLC
def tlc(wd, module, cfg_text, args, env=None, heap="4g", timeout=3600, cfg_name=None, out_file=None):
    """Run TLC in scratch directory wd (spec files are copied there). Returns (exit code, output text); with out_file the
    output goes to that file (generation runs print gigabytes) and only its tail is returned."""
    for f in os.listdir(SPEC):
        if f.endswith(".tla"):
            shutil.copy(os.path.join(SPEC, f), wd)
    cfg_name = cfg_name or (module + "_run.cfg")
    with open(os.path.join(wd, cfg_name), "w") as f:
        f.write(cfg_text)
    meta = os.path.join(wd, "meta_" + cfg_name.replace(".", "_"))
    cmd = ["java", "-XX:+UseParallelGC", "-Xmx" + heap, "-Xss64m", "-cp", TLAJARS, "tlc2.TLC",
           "-metadir", meta, "-config", cfg_name] + args + [module + ".tla"]
    e = dict(os.environ)
    if env:
        e.update(env)
    try:
        if out_file:
            with open(out_file, "w") as fo:
                p = subprocess.run(cmd, cwd=wd, env=e, stdout=fo, stderr=subprocess.STDOUT, text=True, timeout=timeout)
        else:
            p = subprocess.run(cmd, cwd=wd, env=e, capture_output=True, text=True, timeout=timeout)
    except subprocess.TimeoutExpired:
        shutil.rmtree(meta, ignore_errors=True)
        raise Indeterminate(f"TLC timed out after {timeout}s: {' '.join(cmd)}")
    shutil.rmtree(meta, ignore_errors=True)
    if out_file:
        with open(out_file, "rb") as fi:
            fi.seek(0, 2)
            n = fi.tell()
            fi.seek(max(0, n - 200000))
            tail = fi.read().decode("utf-8", "replace")
        return p.returncode, tail
    return p.returncode, p.stdout + p.stderr


def mc_cfg(family, cfgs, bounds, invariants, emit=False, view=True, emit_all=False, properties=()):
    lines = ["SPECIFICATION Spec", "CONSTANTS", f'  Family = "{family}"', f"  Cfgs <- {cfgs}"]
    for k in ("MaxCodes", "MaxAT", "MaxRT", "MaxNow", "MaxDev", "MaxPar", "Depth"):
        lines.append(f"  {k} = {bounds[k]}")
    lines.append(f"  Emit = {'TRUE' if emit else 'FALSE'}")
    lines.append(f"  EmitAll = {'TRUE' if emit_all else 'FALSE'}")
    if invariants:
        lines.append("INVARIANTS " + " ".join(invariants))
    if properties:
        lines.append("PROPERTIES " + " ".join(properties))
    if view:
        lines.append("VIEW " + (view if isinstance(view, str) else "View"))
    lines.append("CHECK_DEADLOCK FALSE")
    return "\n".join(lines) + "\n"


def parse_mc(out):
    m = re.search(r"(\d+) states generated, (\d+) distinct states found", out)
    d = re.search(r"depth of the complete state graph search is (\d+)", out)
    res = {"generated": int(m.group(1)) if m else 0, "distinct": int(m.group(2)) if m else 0,
           "depth": int(d.group(1)) if d else 0,
           "ok": "Model checking completed. No error has been found." in out}
    return res


def model_check(family, cfgs, bounds, wd, workers=NCPU, timeout=3000, coverage=False, refine=True):
    """Exhaustive TLC run of the bounded design; the property invariants must hold."""
    # FCInv / FCRefines: every state projects into the inductive invariant of FamilyCore.tla and every step
    # projects to a FamilyCore step or a stutter (the link to the unbounded Apalache result)
    cfg = mc_cfg(family, cfgs, bounds, ["InvState", "InvStep", "TypeOK", "FCInv"], properties=["FCRefines"] if refine else [])
    args = ["-workers", str(workers)]
    if coverage:
        args += ["-coverage", "1"]
    t0 = time.time()
    rc, out = tlc(wd, "MCGrants", cfg, args, heap="12g", timeout=timeout, cfg_name=f"mc_{family}.cfg")
    res = parse_mc(out)
    res["wall_s"] = round(time.time() - t0, 1)
    res["bounds"] = dict(bounds, Cfgs=cfgs, Family=family)
    res["checked"] = ["InvState", "InvStep", "TypeOK", "FCInv"] + (["FCRefines (action property)"] if refine else [])
    if not res["ok"]:
        tail = "\n".join(l for l in out.splitlines() if not l.startswith(("Linting", "Semantic", "Parsing")))[-6000:]
        raise Indeterminate(f"design-level model check of {family} did not pass (specification bug, not a verdict about the code):\n{tail}")
    log(f"[mc] {family} {cfgs}: {res['generated']} states generated, {res['distinct']} distinct, depth {res['depth']}, {res['wall_s']}s")
    return res


def apalache_core(wd, timeout=900):
    """Unbounded part: Apalache shows the invariant of FamilyCore.tla inductive (Init => IndInv, IndInv /\\ Next => IndInv')."""
    res = []
    for name, args in (("initiation", ["--init=Init", "--inv=IndInv", "--length=0"]), ("consecution", ["--init=IndInit", "--inv=IndInv", "--length=1"])):
        out_dir = os.path.join(wd, "apalache_" + name)
        t0 = time.time()
        try:
            p = subprocess.run(["apalache-mc", "check", "--cinit=CInit", *args, f"--out-dir={out_dir}", f"--run-dir={out_dir}/run", os.path.join(SPEC, "FamilyCore.tla")],
                               cwd=wd, capture_output=True, text=True, timeout=timeout)
            out = p.stdout + p.stderr
        except subprocess.TimeoutExpired:
            raise Indeterminate(f"apalache {name} timed out")
        ok = "The outcome is: NoError" in out
        shutil.rmtree(out_dir, ignore_errors=True)
        if not ok:
            raise Indeterminate(f"apalache {name} of FamilyCore.IndInv did not pass (specification problem, not a verdict about the code):\n" + out[-2000:])
        res.append({"obligation": name, "args": args, "ok": True, "wall_s": round(time.time() - t0, 1)})
    log(f"[apalache] FamilyCore.IndInv inductive (N=6 slots, M=8 grants, any history length): {res[0]['wall_s']}s + {res[1]['wall_s']}s")
    return {"module": "FamilyCore.tla", "invariant": "IndInv", "constants": "N=6 slots, M=8 grants", "obligations": res}


HIST_RE = re.compile(r'^<<"HIST", (".*")>>$')


def parse_hist(out):
    """out: the output text, or an iterable of lines (a file object)"""
    hs, seen = [], set()
    for line in (out.splitlines() if isinstance(out, str) else out):
        m = HIST_RE.match(line.strip())
        if not m:
            continue
        js = json.loads(m.group(1))  # TLA+ string literal escapes are JSON-compatible here
        k = hashlib.sha1(js.encode()).hexdigest()
        if k in seen:
            continue
        seen.add(k)
        hs.append(json.loads(js))
    return hs


def gen_simulate(family, cfgs, bounds, wd, num, seed, workers=4, timeout=1200):
    """Random behaviours of the specification (tlc -simulate), as operation histories."""
    cfg = mc_cfg(family, cfgs, bounds, ["EmitHist"], emit=True, view=False)
    per = max(2, num // (workers * 8))
    rc, out = tlc(wd, "MCGrants", cfg, ["-workers", str(workers), "-simulate", f"num={per}", "-depth", str(bounds["Depth"] + 1),
                                       "-seed", str(seed)], heap="4g", timeout=timeout, cfg_name=f"gen_{family}_{seed}.cfg")
    hs = parse_hist(out)
    if not hs:
        raise Indeterminate("TLC simulation produced no behaviours:\n" + out[-3000:])
    if len(hs) > num:          # TLC prints every successor it generates; keep a seeded sample
        random.Random(seed).shuffle(hs)
        hs = hs[:num]
    return hs


def gen_exhaustive(family, cfgs, bounds, wd, timeout=1800, tail_k=None, seed=1, tail_budget=60000):
    """State cover: BFS over the bounded model with the VIEW that hides the history; TLC prints the
    history stored with every state it finds new, i.e. one shortest witness per distinct abstract
    state of the bounded design, together with the operations of the alphabet that leave that state
    unchanged (refused attempts and queries: no witness can end in one, their successor is not new).
    Witnesses that are prefixes of other witnesses are dropped (the longer one passes through the
    same states) unless they have such a tail; the tail (all of it, or a seeded sample of tail_k
    operations) is appended to the witness."""
    cfg = mc_cfg(family, cfgs, bounds, ["EmitHist"], emit=True, view="ViewGen", emit_all=True)
    of = os.path.join(wd, f"genx_{family}.out")
    rc, out = tlc(wd, "MCGrants", cfg, ["-workers", str(NCPU)], heap="12g", timeout=timeout, cfg_name=f"genx_{family}.cfg", out_file=of)
    with open(of) as fh:
        hs = parse_hist(fh)
    os.remove(of)
    if not hs:
        raise Indeterminate("TLC state-cover generation produced no behaviours:\n" + out[-3000:])
    keyed = {}
    for h in hs:
        keyed[(json.dumps(h["cfg"], sort_keys=True), tuple(json.dumps(o, sort_keys=True) for o in h["ops"]))] = h
    prefixes = set()
    for (c, ops) in keyed:
        for n in range(1, len(ops)):
            prefixes.add((c, ops[:n]))
    rnd = random.Random(seed)
    kept, ntail = [], 0
    # tail_k is the MINIMUM sample per state; small families get more (all of them, when the family is small enough):
    # a budget of refused/query operations is shared by the states of the family
    if tail_k is not None:
        tail_k = max(tail_k, min(250, tail_budget // max(1, len(keyed))))
    for k in sorted(keyed):
        h = keyed[k]
        tail = sorted(h.pop("tail", []) or [], key=lambda o: json.dumps(o, sort_keys=True))
        if tail_k is not None and len(tail) > tail_k:
            tail = rnd.sample(tail, tail_k)
        if k in prefixes and not tail:
            continue
        # the sampled operations are run twice, in a seeded order: a refused request must ALSO leave the implementation
        # where it was, which only a later request reveals; two passes put every sampled pair in both orders
        rnd.shuffle(tail)
        tail = tail + tail
        h["ops"] = h["ops"] + tail
        ntail += len(tail)
        kept.append(h)
    st = parse_mc(out)
    st["witnesses"] = len(hs)
    st["inert_ops_appended"] = ntail
    return kept, st


def validate_traces(trace_files, wd, module="TraceGrants"):
    """Trace validation: one single-worker TLC per trace file, in parallel."""
    spec = "SSpec" if module == "TraceSteps" else "TSpec"
    cfg = f"SPECIFICATION {spec}\nCHECK_DEADLOCK FALSE\nPOSTCONDITION Consumed\n"

    def one(tf):
        sub = tf + ".tlc"
        os.makedirs(sub, exist_ok=True)
        rep = tf + ".report.json"
        if os.path.exists(rep):
            os.remove(rep)
        rc, out = tlc(sub, module, cfg, ["-workers", "1"], env={"VERIF_TRACE": tf, "VERIF_REPORT": rep}, heap="3g",
                      timeout=3000, cfg_name="trace.cfg")
        if not os.path.exists(rep) or "No error has been found" not in out:
            tail = "\n".join(l for l in out.splitlines() if not l.startswith(("Linting", "Semantic", "Parsing")))[-5000:]
            raise Indeterminate(f"trace validation did not complete for {tf}:\n{tail}")
        r = json.load(open(rep))
        shutil.rmtree(sub, ignore_errors=True)
        return r

    with ThreadPoolExecutor(min(NCPU, len(trace_files))) as ex:
        reps = list(ex.map(one, trace_files))
    stats = {}
    mism = []
    lines = 0
    for r in reps:
        for k, v in r["stats"].items():
            stats[k] = stats.get(k, 0) + v
        mism += r["mismatches"]
        lines += r["lines"]
    return {"stats": stats, "mismatches": mism, "lines": lines}


# ---------------------------------------------------------------------------- attribution
OWNERS = {
    # reason tags of refusals
    "code_used": {"C01"}, "code_unknown": {"C06", "C01"}, "wrong_client": {"C02"}, "redirect_mismatch": {"C02"},
    "code_expired": {"C02", "C07"},
    "pkce_required": {"C03"}, "pkce_plain_disabled": {"C03"}, "pkce_unknown_method": {"C03"}, "pkce_unexpected_verifier": {"C03"},
    "pkce_missing_verifier": {"C03"}, "pkce_malformed_verifier": {"C03"}, "pkce_mismatch": {"C03"},
    "rt_used": {"C04"}, "rt_unknown": {"C06", "C04"}, "rt_expired": {"C07"},
    "rt_scope_missing": {"C05"}, "rt_wrong_client": {"C05"}, "rt_scope_lost": {"C05"}, "rt_aud_lost": {"C05"},
    "grant_type_not_allowed": {"C05", "C13"},
    "client_unauthenticated": {"C10", "C08"}, "client_bad_secret": {"C10", "C08"},
    "scope_not_allowed": {"C12"}, "aud_not_allowed": {"C12"}, "public_client_credentials": {"C10"},
    "bad_user_credentials": {"C10"},
    "par_enforced": {"C17"}, "par_contains_request_uri": {"C17"}, "par_unknown_or_used": {"C17"},
    "par_expired": {"C17", "C07"}, "par_wrong_client": {"C17"},
    "dev_unknown": {"C16"}, "dev_forged": {"C16", "C06"}, "dev_used": {"C16"}, "dev_pending": {"C16"}, "dev_denied": {"C16"},
    "dev_expired": {"C16", "C07"}, "dev_wrong_client": {"C16"}, "usercode_expired": {"C16", "C07"},
    "revoke_foreign_client": {"C08"}, "revoke_unknown": {"C08"}, "revoke_already_inactive": {"C08"},
    "introspect_caller_unauthenticated": {"C09"}, "introspect_inactive": {"C09"}, "rt_introspection_disabled": {"C09"},
    "oidc_redirect_required": {"C13"}, "response_type_unhandled": {"C13"}, "response_type_missing": {"C13"},
    # why a token is dead in the specification
    "rotated": {"C04"}, "reuse": {"C04"}, "replay": {"C01", "C16"}, "revoked": {"C08"}, "expired": {"C07"},
    "never_issued": {"C06"}, "": set(),
    # an access token delivered by the authorization endpoint (hybrid) that the reference store
    # removes together with its grant: no listed property demands that (DESIGN.md C01 "open by design")
    "rotated_authz": set(), "replay_authz": set(), "reuse_authz": set(),
}
# refusals whose error *class* the property statement names
CLASS_NAMED = {
    "C01": {"code_used"}, "C02": {"wrong_client", "redirect_mismatch"}, "C04": {"rt_used"},
    "C08": {"revoke_foreign_client"}, "C10": {"client_unauthenticated", "client_bad_secret"},
    "C16": {"dev_pending", "dev_denied", "dev_expired", "dev_wrong_client", "dev_used"},
}
# properties that themselves promise that a legitimate request succeeds
PROMISES_SUCCESS = {"C02": {"redeem"}, "C03": {"redeem"}, "C08": {"revoke"}, "C18": {"redeem", "refresh", "devpoll"}}
SUCCESS = {"ok", "active"}


def classify(m, prop):
    """Return (verdict, text): verdict in {'violation', 'note'}. `prop` is the checking property."""
    op = m["op"]["op"]
    fields = set(m["fields"])
    if m.get("prop") == "property":
        mine = [f for f in m["fields"] if f.startswith(prop + ".")]
        if mine:
            return "violation", f"property predicate(s) {','.join(mine)} false on a step where specification and implementation agree"
        return "note", f"foreign property predicate(s) {','.join(m['fields'])} false"
    texts, viol = [], False
    if "res" in fields:
        e, o, reason = m["exp_res"], m["obs_res"], m["exp_reason"]
        owners = OWNERS.get(reason, set())
        if e not in SUCCESS and o in SUCCESS:
            t = f"{op}: specification refuses ({e}, reason {reason}) but the implementation answered {o}"
            if prop in owners:
                viol = True
            texts.append(t + f" [owner {','.join(sorted(owners)) or '-'}]")
        elif e in SUCCESS and o not in SUCCESS:
            t = f"{op}: specification expects success but the implementation refused with {o}"
            if op in PROMISES_SUCCESS.get(prop, set()):
                viol = True
            texts.append(t)
        else:
            t = f"{op}: both refuse but with different classes (spec {e}/{reason}, impl {o})"
            if reason in CLASS_NAMED.get(prop, set()):
                viol = True
            texts.append(t)
    if "issued" in fields:
        ei, oi = m["exp_issued"], m["obs_issued"]
        extra = [k for k in ("code", "at", "rt", "dev", "par") if ei[k] == 0 and oi[k] != 0]
        if extra:
            owners = OWNERS.get(m["exp_reason"], set()) if m["exp_res"] not in SUCCESS else {"C05"} if "rt" in extra else set()
            if prop in owners:
                viol = True
            texts.append(f"{op}: implementation handed out {extra} that the specification does not issue [owner {','.join(sorted(owners)) or '-'}]")
        else:
            texts.append(f"{op}: issued credentials differ (spec {ei}, impl {oi})")
    if "probe_active" in fields:
        for kind in ("at", "rt"):
            for x in m["extra_active_" + kind]:
                owners = set(OWNERS.get(x["why"], set()))
                # "active" is what the introspection endpoint reports. When the store agrees with the specification (no
                # projection mismatch at this step) and the endpoint still calls the dead token active, the endpoint's own
                # verdict is wrong: C09 ("active exactly when ... not expired, revoked, rotated away or killed by replay detection")
                if not m.get("proj_differs", "proj" in fields):
                    owners.add("C09")
                if prop in owners:
                    viol = True
                texts.append(f"after {op}: {kind} #{x['id']} is still active in the implementation; the specification has it dead ({x['why']}) [owner {','.join(sorted(owners)) or '-'}]")
            for x in m["missing_other_" + kind]:
                if prop in ("C01", "C04", "C08", "C16"):
                    viol = True
                texts.append(f"after {op}: {kind} #{x} of an unrelated grant became inactive in the implementation")
            rest = set(m["missing_active_" + kind]) - set(m["missing_other_" + kind])
            if rest:
                texts.append(f"after {op}: {kind} {sorted(rest)} of the same grant inactive in the implementation, active in the specification")
    if "probe_payload" in fields:
        if prop in ("C09", "C02", "C05", "C07"):
            viol = True
        texts.append(f"after {op}: introspection payload differs: spec {m['payload_exp']} impl {m['payload_obs']}")
    if "expin" in fields:
        if prop == "C07":
            viol = True
        texts.append(f"{op}: advertised lifetime differs (spec {m['exp_issued']['expin']}, impl {m['obs_issued']['expin']})")
    if "idt" in fields:
        if prop == "C14":
            viol = True
        texts.append(f"{op}: ID-token presence differs (spec {m['exp_issued']['idt']}, impl {m['obs_issued']['idt']})")
    if "note" in fields:
        if prop == ("C09" if op == "introspect" else "C17"):
            viol = True
        texts.append(f"{op}: " + ("reported token kind" if op == "introspect" else "resulting request") + f" differs: spec '{m['exp_note']}' impl '{m['obs_note']}'")
    if prop == "C08" and op == "revoke" and m["exp_reason"] in ("revoke_already_inactive", "revoke_unknown", "revoke_foreign_client",
                                                                "client_unauthenticated", "client_bad_secret") \
            and (fields & {"probe_active", "proj", "probe_payload"}):
        viol = True
        texts.append("revoke: the specification leaves the state unchanged for this request (" + m["exp_reason"] + ") but the implementation changed it")
    if "proj" in fields:
        d = {k: (m["exp_proj"][k], m["obs_proj"][k]) for k in m["exp_proj"] if m["exp_proj"][k] != m["obs_proj"].get(k)}
        texts.append(f"after {op}: store projection differs {d}")
    if "now" in fields:
        texts.append("clock mismatch (harness problem)")
    return ("violation" if viol else "note"), "; ".join(texts)


# ---------------------------------------------------------------------------- findings / evidence
def load_findings():
    p = os.path.join(VERIF, "known_findings.json")
    if not os.path.exists(p):
        return []
    return json.load(open(p)).get("findings", [])


def write_replay(prop, name, payload):
    # bin/try_mutant and bin/seeded_sweep (runs on a deliberately broken tree) redirect replays and evidence to scratch
    d = os.environ.get("VERIF_REPLAY_DIR") or os.path.join(VERIF, "replays")
    os.makedirs(d, exist_ok=True)
    p = os.path.join(d, f"{prop}_{name}.json")
    with open(p, "w") as f:
        json.dump(payload, f, indent=1, sort_keys=True)
    return p


def write_evidence(prop, tier, seed, level, coverage, wall, violations, assumptions):
    evdir = os.environ.get("VERIF_EVIDENCE_DIR") or os.path.join(VERIF, "evidence")
    os.makedirs(evdir, exist_ok=True)
    ev = {"property_id": prop, "tier": tier, "seed": int(seed), "level": level, "coverage": coverage,
          "assumptions": assumptions, "wall_s": round(wall, 1), "violations": int(violations)}
    with open(os.path.join(evdir, prop + ".json"), "w") as f:
        json.dump(ev, f, indent=1, sort_keys=True)
    # one line per (property, tier) of the last run of each tier, for the cost table of DESIGN.md (lib/mkcosts.py)
    sp = os.path.join(evdir, "summary.json")
    lock = open(sp + ".lock", "w")
    fcntl.flock(lock, fcntl.LOCK_EX)
    try:
        summ = json.load(open(sp)) if os.path.exists(sp) else {}
        c = coverage
        summ.setdefault(prop, {})[tier] = {
            "wall_s": round(wall, 1), "violations": int(violations), "seed": int(seed),
            "states": c.get("states"), "transitions": c.get("transitions"),
            "executions_on_real_code": c.get("traces_validated_against_impl"), "evaluations": c.get("evaluations")}
        with open(sp, "w") as f:
            json.dump(summ, f, indent=1, sort_keys=True)
    finally:
        fcntl.flock(lock, fcntl.LOCK_UN)
    return ev


# ---------------------------------------------------------------------------- Steps (C15 C18 C19)
def steps_cfg(scenarios, maxfaults, kinds, invariants, emit=False, view=True):
    lines = ["SPECIFICATION Spec", "CONSTANTS", f"  Scenarios <- {scenarios}", f"  MaxFaults = {maxfaults}",
             f"  Kinds <- {kinds}", f"  Emit = {'TRUE' if emit else 'FALSE'}"]
    if invariants:
        lines.append("INVARIANTS " + " ".join(invariants))
    if view:
        lines.append("VIEW View")
    lines.append("CHECK_DEADLOCK FALSE")
    return "\n".join(lines) + "\n"


def model_check_steps(scenarios, maxfaults, kinds, invariants, wd, workers=8, timeout=3000, module="MCSteps"):
    t0 = time.time()
    rc, out = tlc(wd, module, steps_cfg(scenarios, maxfaults, kinds, invariants), ["-workers", str(workers)], heap="12g",
                  timeout=timeout, cfg_name=f"mcs_{scenarios}_{maxfaults}.cfg")
    res = parse_mc(out)
    res["wall_s"] = round(time.time() - t0, 1)
    res["bounds"] = {"Scenarios": scenarios, "MaxFaults": maxfaults, "Kinds": kinds, "invariants": invariants}
    if not res["ok"]:
        tail = "\n".join(l for l in out.splitlines() if not l.startswith(("Linting", "Semantic", "Parsing")))[-6000:]
        raise Indeterminate(f"design-level model check of {scenarios} did not pass (specification bug, not a verdict about the code):\n{tail}")
    log(f"[mc] {module} {scenarios} faults<={maxfaults}: {res['generated']} states generated, {res['distinct']} distinct, depth {res['depth']}, {res['wall_s']}s")
    return res


def gen_steps(scenarios, maxfaults, kinds, wd, mode="bfs", num=200, depth=60, seed=1, timeout=3000, module="MCSteps"):
    """Complete schedules (all interleavings / fault placements) or a simulated sample."""
    cfg = steps_cfg(scenarios, maxfaults, kinds, ["EmitHist"], emit=True, view=False)
    if mode == "bfs":
        args = ["-workers", str(NCPU)]
    else:
        args = ["-workers", "4", "-simulate", f"num={max(2, num // 4)}", "-depth", str(depth), "-seed", str(seed)]
    rc, out = tlc(wd, module, cfg, args, heap="12g", timeout=timeout, cfg_name=f"gens_{scenarios}_{maxfaults}_{mode}.cfg")
    hs = parse_hist(out)
    if not hs:
        raise Indeterminate("TLC produced no schedules:\n" + out[-3000:])
    return hs, parse_mc(out)
