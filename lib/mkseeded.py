#!/usr/bin/env python3
"""Regenerate the table of seeded changes in DESIGN.md (between the markers) from /verif/seeded/*/meta.json
and the last run of bin/seeded_sweep (seeded/SWEEP.json)."""
import glob, json, os, re
ROOT = os.path.dirname(os.path.dirname(os.path.abspath(__file__)))
sweep = {}
if os.path.exists(os.path.join(ROOT, "seeded", "SWEEP.json")):
    sweep = json.load(open(os.path.join(ROOT, "seeded", "SWEEP.json")))


def cell(s, n):
    s = re.sub(r"\s+", " ", str(s)).replace("|", "\\|")
    return s if len(s) <= n else s[:n - 1].rstrip() + "…"


rows = ["| id | what the change does | needs, to manifest | first confrontation with the checks | last sweep (quick tier) |", "|---|---|---|---|---|"]
for d in sorted(glob.glob(os.path.join(ROOT, "seeded", "C*-*"))):
    mid = os.path.basename(d)
    m = json.load(open(os.path.join(d, "meta.json")))
    fr = (m.get("framework_result") or {}).get("result", "")
    sw = sweep.get(mid)
    last = "not run" if not sw else ("caught, exit 1" if sw["caught"] else f"NOT caught (exit {sw['exit']})")
    rows.append(f"| {mid} | {cell(m.get('what_it_breaks', ''), 260)} | {cell(m.get('needs_to_manifest', ''), 200)} | {cell(fr, 420)} | {last} |")
tbl = "\n".join(rows)
p = os.path.join(ROOT, "DESIGN.md")
s = open(p).read()
a, b = "<!-- SEEDED-TABLE-BEGIN -->", "<!-- SEEDED-TABLE-END -->"
if a not in s:
    raise SystemExit("markers missing in DESIGN.md")
s = s[:s.index(a) + len(a)] + "\n" + tbl + "\n" + s[s.index(b):]
open(p, "w").write(s)
print(f"{len(rows) - 2} seeded changes written")
