#!/usr/bin/env python3
"""Regenerates /verif/MANIFEST.json from the table below (one source of truth)."""
import json, os
V = os.path.dirname(os.path.dirname(os.path.abspath(__file__)))
ALL = [f"C{i:02d}" for i in range(1, 21)]

STATEFUL_NOTE = ("Trusted: TLC 1.8 + CommunityModules Json; Go 1.26 testing/synctest fake clock; the harness's "
                 "projection/abstraction code (its corruption self-test runs on every invocation). TLC's exhaustive "
                 "guarantee is for the bounded design recorded in the evidence file; beyond the bounds only seeded "
                 "TLC-simulated histories. Crypto primitives are uninterpreted in the model.")

def stateful(pid, what, ref):
    return {
        "property_id": pid,
        "quick_cmd": f"bin/check {pid} --tier quick",
        "thorough_cmd": f"bin/check {pid} --tier thorough",
        "evidence_file": f"evidence/{pid}.json",
        "replay_cmd_template": f"bin/check {pid} --replay {{path}}",
        "engine": "tla-stateful",
        "level_claimed": {"category": "model_checking", "design_ref": ref,
                          "text": what},
        "level_note": STATEFUL_NOTE,
        "technique": "explicit TLA+ spec (Store/Grants) model-checked with TLC; TLC-generated behaviours replayed on the real code; recorded traces validated against the spec with TLC (TraceGrants)",
    }

CHECKS = {
 "C01": stateful("C01", "TLC checks CodeOnce/ReplayRefused/ReplayKillsFamily/FamilyIsolation in every state of the bounded design (plain + hybrid codes, grants with and without granted scopes, refresh chains, revocations, clock; family C01 broad and shallow, family C01b one code followed through time with short lifetimes), plus FCInv/FCRefines (refinement of FamilyCore.tla, whose invariant Apalache shows inductive). One witness history per distinct state of the bounded model, extended by every refused/query operation of that state (a seeded sample at quick), and seeded deep simulated histories are executed on the real provider + reference store and each step (result class, issued credentials, introspection of every token, store projection) is validated against the spec.", "DESIGN.md 6 C01"),
 "C02": stateful("C02", "Exhaustive TLC check of RedeemGuard/FailedRedeemInert/grant immutability over client x redirect presentation x smuggled parameters x code age (the clock may jump to the end of the modelled time), under a finite and an unlimited refresh-token lifetime; all attempt pairs and seeded longer histories replayed on the real code and validated step by step, incl. the introspection payload of issued tokens.", "DESIGN.md 6 C02"),
 "C03": stateful("C03", "Exhaustive TLC check of PkceGuard/PkceBindingStable over all sequences of redemption attempts for the 8 PKCE configurations, incl. challenges the client derived from a verifier with a reserved character (never redeemable); every attempt sequence up to the generation depth is executed on the real code with real verifiers/S256 challenges and validated. Storage failures: MCSteps.tla ScnPkceFault redeems a code issued with a challenge (without, with the right, with a wrong verifier) with one injected error at every storage call, then retries; every schedule is forced on the real code.", "DESIGN.md 6 C03"),
 "C04": stateful("C04", "TLC checks RefreshOnce/ReuseKillsFamily/FamilyIsolation on grants of four origins (code, hybrid, password, device) with chains and replays of any generation by the owner or a stranger (family C04), and one refresh chain followed through time with short lifetimes (family C04b); FCInv/FCRefines link the design to FamilyCore.tla, whose invariant (one honoured refresh token per grant, killed grants stay dead) Apalache shows inductive for histories of any length (run at thorough). Behaviours replayed on the real code, every token of every generation probed after every step.", "DESIGN.md 6 C04"),
 "C05": stateful("C05", "TLC checks RefreshGuard/RefreshPreservesGrant/RtIssuanceRule over grant x refresh parameters x presenting client x registration changes (a change stores a new client record, so the snapshot kept with a grant and the current registration differ) x refresh-scope configuration; behaviours replayed and validated incl. payload comparison.", "DESIGN.md 6 C05"),
 "C07": stateful("C07", "TLC checks NothingAfterExpiry/StepExpiryRespected for codes, opaque and JWT access tokens, refresh tokens (finite and unlimited), device/user codes and PAR request URIs with an explicit clock; histories with ticks on both sides of every expiry executed under the synctest clock and validated, advertised expires_in compared. Attached decision tables: TblLifespan (per-client lifetime overrides per grant/token-type pair, unlimited refresh) and the expiry / not-before rows of TblAssertion (JWT assertions).", "DESIGN.md 6 C07"),
 "C08": stateful("C08", "TLC checks RevokeEffective/RevokeOwnerOnly/unknown-inert over every token ever issued x hint x caller (owner, foreign confidential, foreign public, bad secret, unauthenticated; family C08) and over tokens of every age incl. expired ones (family C08b); behaviours replayed on the real code and all tokens probed afterwards.", "DESIGN.md 6 C08"),
 "C09": stateful("C09", "The introspection probe of every token after every step of every history of every stateful check is compared with the spec's verdict and payload; the C09 alphabet adds the introspection endpoint with every caller credential (client secret, bad secret, public client, active / expired / revoked access token as bearer, the inspected token itself, a refresh token as bearer), hint and required-scope list (single and several scopes); for an active answer the reported kind (from the responder), client, subject and scope are compared, for an inactive one that the body is nothing but active=false. A token the specification has dead that the probe reports active while the store agrees with the specification is a C09 violation (the endpoint's own verdict).", "DESIGN.md 6 C09"),
 "C16": stateful("C16", "TLC checks DeviceGuard/DeviceOnce/DeviceReplayRevokes over start/decide/poll/replay/tick, polls with a device code rebuilt from the stored signature, for the reference store and a store following the ErrInvalidatedDeviceCode contract (family C16), and one device code followed through time with every decision incl. a consent application that replaces the session (family C16b); behaviours replayed and validated.", "DESIGN.md 6 C16"),
 "C17": stateful("C17", "TLC checks ParOnce/ParClientBound/ParExpires/ParEnforced; behaviours (push, use by right/wrong client, twice, after expiry, with conflicting query parameters, unknown/foreign-prefix URIs; family C17b follows one request_uri through time) replayed; the parameters of the resulting request are compared with the pushed ones. Storage failures: MCSteps.tla ScnParFault injects one error at every storage call of a push and of a use (reference and transactional store), followed by a second and third use (invariant ParAtMostOnce); every schedule is forced on the real code and validated step by step.", "DESIGN.md 6 C17"),
}

STEPS_NOTE = ("Trusted: TLC 1.8 + CommunityModules Json; Go 1.26 testing/synctest; the storage gate of the harness (parks every request "
              "before each storage-interface call, injects the error kinds generic / ErrNotFound / ErrInactiveToken / ErrSerializationFailure); "
              "the transactional wrapper (snapshot of all tables, restored on rollback). Scenarios and bounds are those of MCSteps.tla "
              "(ScnFault*, ScnConc*) and are recorded in the evidence file.")

def steps(pid, cat, what, ref, technique):
    return {
        "property_id": pid,
        "quick_cmd": f"bin/check {pid} --tier quick",
        "thorough_cmd": f"bin/check {pid} --tier thorough",
        "evidence_file": f"evidence/{pid}.json",
        "replay_cmd_template": f"bin/check {pid} --replay {{path}}",
        "engine": "tla-steps",
        "level_claimed": {"category": cat, "design_ref": ref, "text": what},
        "level_note": STEPS_NOTE,
        "technique": technique,
    }

CHECKS["C18"] = steps("C18", "fault_enumeration",
    "Steps.tla refines every token-issuing/revoking request into its storage calls; TLC enumerates every call index x error kind (single faults; pairs at thorough) for the code, PKCE, hybrid, replay, refresh, refresh-reuse, revocation (refresh and access token), authorize, implicit, device, client-credentials, password, JWT-bearer, private_key_jwt, PAR push and PAR use flows, with a transactional store with real rollback and with the plain reference store, followed by a retry and a replay, and checks NoTokensOnFailure / TxBalanced / RollbackRestores / FailClosed / RetryStillGuarded in every state. Every one of these fault schedules is forced on the real code through the storage gate and validated step by step (method called, store projection, tx log, result); predicates that need only the observation are evaluated on it as well, also on histories in which the implementation's call sequence has left the specification's.",
    "DESIGN.md 6 C18", "TLA+ step-level spec (Steps/MCSteps) model-checked with TLC; TLC-enumerated fault schedules injected into the real code at the storage interface; recorded traces validated with TLC (TraceSteps)")
CHECKS["C19"] = steps("C19", "model_checking",
    "TLC explores every interleaving, at storage-call granularity, of two and three in-flight requests on overlapping credentials (MCSteps ScnConc2/ScnConc3; ScnConc3Big = three complete token requests at once, design checked exhaustively, schedules sampled) and checks HandedOutActiveOrKilledByPeer / MintFresh / refinement of the sequential design; the schedules (all of them at thorough, a seeded sample at quick) are forced on real goroutines through the storage gate and every step is validated: the handler called the storage method the spec names, the call had exactly the specified atomic effect on the store, results and final activity agree. Atomicity of each store method itself: goroutines call the reference store free-running on shared keys, call/return events are ordered by an atomic counter, and TLC searches a linearization of every recorded history against StoreLin.tla (one action per critical section, Store.tla operators). Outside the specification (a TLA+ model cannot see a missing lock) the same harness runs free under the Go race detector with default-constructed and fully populated configurations, a watchdog and recover.",
    "DESIGN.md 6 C19", "TLA+ step-level spec model-checked with TLC; TLC-generated schedules forced on real goroutines; traces validated with TLC (TraceSteps); linearizability of recorded free-running store histories searched by TLC (StoreLin); Go race detector for the memory-level clause")

TABLE_NOTE = ("Trusted: TLC 1.8 (evaluates the decision specification and its ASSUMEd relations on the complete bounded domain and "
              "writes the table with the CommunityModules Json module); the harness code that renders structured inputs to strings / "
              "HTTP requests / signed JWTs and decodes the outputs (self-test: rows with flipped expectations must be reported). "
              "The input domain is bounded as written in the specification; nothing is claimed outside it.")

def table(pid, what, ref):
    return {
        "property_id": pid,
        "quick_cmd": f"bin/check {pid} --tier quick",
        "thorough_cmd": f"bin/check {pid} --tier thorough",
        "evidence_file": f"evidence/{pid}.json",
        "replay_cmd_template": f"bin/check {pid} --replay {{path}}",
        "engine": "tla-tables",
        "level_claimed": {"category": "model_checking", "design_ref": ref, "text": what},
        "level_note": TABLE_NOTE,
        "technique": "TLA+ decision specification enumerated completely by TLC into an input->expected-verdict table; every row executed on the real code (model-based test generation from the specification)",
    }

CHECKS["C11"] = table("C11", "TblRedirect.tla states when a redirect to a requested URI is allowed (string-identical to a registered URI, or http + loopback literal + same host/path/query; absolute; no own fragment) over URI records; TLC enumerates every registered set x every one- (thorough: two-) component near-miss of a registered URI x response type x response mode x kind of request error; every row is rendered to strings and driven through NewAuthorizeRequest / NewAuthorizeResponse / WriteAuthorizeResponse / WriteAuthorizeError, and the Location header or form action is compared (redirected => allowed, target = requested, no code over plain http to a non-local host); the same redirect_uri is pushed to the pushed-authorization endpoint, which may accept it only if it is allowed and not plain http to a non-local host. ParRows: the request is pushed with the first registered URI or none and the front-channel request redeeming the request_uri carries a redirect_uri of its own (registered, near-miss, foreign): a redirect goes to the URI fixed at the push.", "DESIGN.md 6 C11")
CHECKS["C12"] = table("C12", "TblScope.tla transcribes the documented rules of the three scope strategies and two audience strategies; TLC enumerates all pattern/needle pairs over the segment alphabet {a,b,*,empty} up to 3 (thorough 4) segments, all URL pairs of the bounded URL domain, and the confinement table flow x strategy x registration x request for all nine flows; the real strategy functions are called on every row and every flow is driven with every out-of-policy request (accept/refuse, error class, scopes/audience of issued tokens; a registration change stores a new client record; the front-channel flows are repeated under the JWT access-token strategy with a resource owner who grants no audience, and the aud claim of the JWT is read).", "DESIGN.md 6 C12")

CHECKS["C06"] = table("C06", "TblHmac.tla models a credential as <<prefix, key, mac>> with an uninterpreted injective MAC and states which presentations are accepted under which secret/hash configuration (current, rotated at any position, forgotten, shorter than 32 bytes before/after the matching one, equal in the first 32 bytes, other hash function); TLC enumerates credential kind (code, access, refresh, device code) x 17 mutation classes x 13 configurations (incl. rotated secrets only) x finite/unlimited refresh lifetime, and 19 JWT manipulation classes (incl. manipulated protected headers: crit of the wrong type, unknown crit extension, embedded jwk, b64=false) x validator (storage-backed introspection, StatelessJWTValidator) x before/after expiry x required scope covered or not x session type (OpenID Connect session, oauth2.JWTSession), and the replacement of the signing key of the running server (a token of the retired key is refused, one minted afterwards accepted). Every row is concretised n times (seeded bit/byte positions, real tokens minted by the real strategies through the real flows) and presented to Validate and to the consuming endpoint; a refusal must leave the store projection unchanged; all minted values of the run are checked for repeats and for a decoded random part of at least max(32, configured entropy) bytes (configured 0 / 8 / 48).", "DESIGN.md 6 C06")
CHECKS["C10"] = table("C10", "TblClientAuth.tla transcribes client authentication (registration kind/method/public/rotated secrets x transport x secret relation x known id x endpoint -> authentication verdict and endpoint outcome); TLC enumerates all 6192 rows (incl. confidential registrations without any stored secret hash); each is executed with real bcrypt-hashed secrets at the token (client_credentials, password, refresh_token), revocation, PAR and device-authorization endpoints; on a rejected authentication the storage write log must be empty and the presented refresh token still active.", "DESIGN.md 6 C10")
CHECKS["C13"] = table("C13", "TblAuthz.tla transcribes the authorization-request validation pipeline and response placement (registered response-type sets, response modes, grant types x response_type list with order and duplicates x response_mode x state/nonce length x openid x redirect_uri); the safety clauses of the statement are ASSUMEd of the specification on the whole domain (70200 rows); rows (all at thorough, a seeded 16000 at quick) are driven through NewAuthorizeRequest/NewAuthorizeResponse/Write*, and verdict, issued artefacts, placement (query/fragment/form), 'no token in the query' and state echo are compared.", "DESIGN.md 6 C13")

CHECKS["C14"] = table("C14", "TblIDToken.tla states, per OpenID flow (code, implicit x2, hybrid x2, refresh, device), when an ID Token is issued (openid granted, non-empty subject, pre-set expiry not in the past) and what it is bound to (algorithm of the signing key, at_hash / c_hash presence and hash size, nonce, aud, sub, iss, exp window), and the max_age / prompt (none, login, consent, login consent, none login, unknown) / id_token_hint (same, other subject, expired, garbage, without subject, foreign key) conditions as a function of auth_time - requested_at incl. a missing and a future auth_time; every row is executed end to end with real RSA / P-256 / P-384 / P-521 keys and the token is parsed and verified with the public key; hashes are recomputed with the standard library.", "DESIGN.md 6 C14")
CHECKS["C15"] = table("C15", "TblAssertion.tla: every private_key_jwt client assertion and every JWT-bearer grant in which at most 2 (thorough 3) fields deviate from the all-right assertion (exp / nbf incl. one second on the wrong side and fractional NumericDates, keys registered without any scope, registration method incl. a non-OpenID-Connect registration, registered algorithm RS256/ES256/PS256, header algorithm incl. none and HS256, kid, signing key, where the registered keys live (registration, jwks_uri fetched by the real DefaultJWKSFetcherStrategy through an in-memory transport, jwks_uri with a stale cached set), iss, sub, aud incl. list forms and URLs that merely extend the token URL, exp incl. wrong type, nbf, iat, jti, optional-claim switches, scope, how the assertion sits in the form) with the expected accept/refuse; each is signed for real and presented, an accepted one is presented a second time and must be refused. Concurrency: Steps.tla/MCSteps.tla (ScnJti) explore every interleaving of the storage steps of two and three simultaneous presentations of one assertion and check JtiAtMostOnce; the schedules (sampled at quick, all at thorough) are forced on real goroutines and validated step by step.", "DESIGN.md 6 C15")

CHECKS["C20"] = table("C20", "TblErrorWire.tla: writer (access, PAR, device, authorize query/fragment/form_post/no-redirect, introspection, revocation) x 16 RFC errors x legacy/new format x debug exposure x 9 kinds of hostile hint/debug text -> status, content type, cache headers, placement, member set and the decoded description/hint/debug as a composition of atoms (debug only when exposed); all 10368 rows are written by the real Write* functions and decoded with independent parsers. NoSecretToStorage: StoreEvents.tla validates the classified trace of every storage-interface call (key classes per method, no secret or complete credential in a key or in a stored form) recorded from every flow with both credential transports and both token strategies, incl. a private_key_jwt client through every flow that stores its request and the verifiable-credentials nonce handler (handler/verifiable). The state reflected into redirects and the form_post page carries & = + $ : @ ; # ? / quotes and angle brackets in the rows with hostile texts.", "DESIGN.md 6 C20")
CHECKS["C20"]["technique"] = "TLA+ decision specification enumerated by TLC into a table executed on the real writers; storage-interface traces recorded from the real code validated by a TLA+ trace specification (StoreEvents)"

NOT_YET = "check not built yet in this session (planned, see DESIGN.md section 10); nothing is claimed"

def main():
    extra = {}
    p = os.path.join(V, "lib", "manifest_extra.json")
    if os.path.exists(p):
        extra = json.load(open(p))
    checks = dict(CHECKS)
    checks.update(extra.get("checks", {}))
    m = {
        "version": 1,
        "setup_cmd": "bin/setup",
        "hooks": {"guard": "verif", "enable": "harness and /repo are built with -tags verif (go1.26 test -c -tags verif in /verif/harness, replace github.com/ory/fosite => /repo)",
                  "baseline_off_cmd": "cd /repo && go build ./... && go test -vet=off -count=1 -timeout 25m ./...",
                  "source_commits": extra.get("hook_commits", []), "add_only": True},
        "engines": [
            {"name": "tla-stateful", "path": "spec/Store.tla spec/Grants.tla spec/MCGrants.tla spec/TraceGrants.tla lib/stateful.py harness/",
             "serves_properties": sorted(k for k, v in checks.items() if v.get("engine") == "tla-stateful"),
             "kind_free_text": "explicit TLA+ specification; TLC exhaustive model checking of the bounded design; TLC-generated behaviours replayed on the real code by a Go harness; TLC trace validation of the recorded executions"},
            {"name": "tla-steps", "path": "spec/Steps.tla spec/MCSteps.tla spec/TraceSteps.tla lib/steps.py harness/steps.go harness/store.go",
             "serves_properties": sorted(k for k, v in checks.items() if v.get("engine") == "tla-steps"),
             "kind_free_text": "step-level refinement of the spec (one storage call per step); TLC enumerates interleavings and fault placements; schedules forced on the real code through a storage gate; TLC trace validation"},
            {"name": "tla-tables", "path": "spec/Tbl*.tla lib/tables.py harness/table_*.go harness/tables_test.go",
             "serves_properties": sorted(k for k, v in checks.items() if v.get("engine") == "tla-tables"),
             "kind_free_text": "decision specifications in TLA+ enumerated by TLC into tables; rows concretised and executed on the real code"},
        ] + extra.get("engines", []),
        "checks": [checks[k] for k in sorted(checks)],
        "not_applicable": [{"property_id": k, "reason": extra.get("na", {}).get(k, NOT_YET)} for k in ALL if k not in checks],
        "notes": "Exit codes of every check: 0 held / 1 VIOLATION line(s) / 2 indeterminate. Genuine defects found and repaired are listed in known_findings.json (status fixed).",
    }
    json.dump(m, open(os.path.join(V, "MANIFEST.json"), "w"), indent=1)
    print("MANIFEST.json written:", len(m["checks"]), "checks,", len(m["not_applicable"]), "not_applicable")

main()
