#!/usr/bin/env python3
"""mktasks.py <worktree-id>... : write TASK.md (the prompt of one mutation sub-agent) into /tmp/mut/<id>/.
The prompt contains the text of one property, the list of changes already produced for it, and the rules; nothing of /verif."""
import glob
import json
import sys

props = {json.loads(l)['id']: json.loads(l) for l in open('/verif/properties.jsonl')}
done = {}
for d in sorted(glob.glob('/verif/seeded/C*-*')):
    m = json.load(open(d + '/meta.json'))
    for pid in {m.get('requested_for'), m['property'][:3], d.split('/')[-1][:3]} - {None}:
        done.setdefault(pid, []).append(m['what_it_breaks'][:230].replace('\n', ' '))
for wid in sys.argv[1:]:
    pid = wid[:3]
    p = props[pid]
    wt = f"/tmp/mut/{wid}"
    prev = "\n".join(f"   - {x}" for x in done.get(pid, []))
    extra = ""
    if pid == "C18":
        extra = " It must need a STORAGE FAILURE (an injected error of one storage call, or of begin/commit/rollback of a transactional store) to manifest; failure-free runs must be unchanged."
    if pid == "C19":
        extra = " It must need CONCURRENT requests (or concurrent store calls) to manifest; sequential runs must be unchanged."
    prompt = f"""You are helping test a verification framework by producing a realistic, subtle regression in the Go library ory/fosite (OAuth2/OIDC server library).

Work ONLY inside the git worktree {wt} (a checkout of ory/fosite). Do not touch /repo or /verif and do not read anything under /verif. Shell setup for every command: `export GOFLAGS=-mod=mod GOPROXY=off GOSUMDB=off GOTOOLCHAIN=local` (no network; all modules are cached). Use the default `go` toolchain. Never use `git stash` (it is shared between worktrees); to test without your change use `git apply -R patch.diff` and afterwards `git apply patch.diff`.

The semantic property to break:

{pid} — {p['title']}
STATEMENT: {p['statement']}
QUANTIFIED OVER: {p['quantifier']['text']}
CODE THE PROPERTY IS ANCHORED IN: {', '.join(p['anchors']['files'])}

Changes that were ALREADY produced for this property (do NOT repeat them or close variants of them):
{prev}

READ the anchored code first and find a place none of the above touches. Choose the mutation yourself: the kind of slip a maintainer makes in a refactoring, an optimisation, an 'RFC alignment' or a cleanup — an inverted or dropped condition in an unusual branch, a comparison on the wrong object, a value taken from the request instead of the stored grant, a check moved after an early return, a loop that stops at the first element, a default that changed, an off-by-one at a boundary, a different behaviour for ONE access-token strategy (JWT vs opaque), ONE client kind (public vs confidential), ONE grant origin, ONE configuration switch.{extra} It must break the STATEMENT above as it is written (quote in meta.json the clause it breaks), must need a specific situation to manifest (not the plain happy path), and must survive the existing tests.

 1. the code must still compile (`go build ./...`) and the ENTIRE existing test suite must still pass unedited: `go test -vet=off -count=1 ./...` (about 2-3 minutes). You must actually run it and confirm.
 2. write a demonstration: a new Go test file in the worktree using the real library (`compose.ComposeAllEnabled` or the individual factories, `storage.NewMemoryStore()`; see integration/*_test.go and integration/helper_*_test.go for how to set up a provider; a storage wrapper that injects errors is fine where the property needs one; or call the changed function directly when the property is about a pure decision function) that FAILS with your change and PASSES without it (verify both).

DELIVERABLES, all written into {wt}/:
 - `patch.diff` : `git diff` of the library change ONLY (not the demo test, not TASK.md), applicable with `git apply` on a clean checkout;
 - `demo_test.go.txt` : a copy of the demonstration test file, first line a comment naming the package directory it must be placed in;
 - `meta.json` : {{"property":"{pid}","what_it_breaks": "...", "clause_broken": "...", "needs_to_manifest": "...", "files_changed": [...], "how_verified": "commands you ran and their results"}}.
Leave the worktree with the mutation applied and the demo test present (as an untracked *_test.go file). In your final answer give a 5-line summary."""
    open(f"{wt}/TASK.md", "w").write(prompt)
print("ok")
