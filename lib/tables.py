"""Checks decided by decision specifications: TLA+ transcriptions of rule sets over a bounded
structured input domain.  TLC enumerates the domain completely, checks the ASSUMEd relations
of the specification and writes the table  input |-> expected verdict  as JSON; the Go
harness concretises every row (real strings, real keys, real signed JWTs, real HTTP
requests) and executes it on the real code; every disagreement is a candidate violation.
"""
import json, os, random, re, sys, time
from vlib import *

Q, T = "quick", "thorough"

CHECKS = {
    "C12": dict(spec="TblScope", consts={Q: {"MaxLen": 3}, T: {"MaxLen": 4}},
                tables=[("VERIF_TABLE_SCOPE", "c12scope", "scope"), ("VERIF_TABLE_AUD", "c12aud", "aud"), ("VERIF_TABLE_FLOW", "c12flow", "flow")],
                cap={Q: 20000, T: 10**7}),
    "C07L": dict(spec="TblLifespan", consts={Q: {}, T: {}}, tables=[("VERIF_TABLE_LIFE", "c07life", "life")], cap={Q: 10**7, T: 10**7}, also=["C07A"]),
    # C07 "JWT assertions are refused once their expiry instant has passed": the rows of TblAssertion whose exp / nbf is not the right one
    "C07A": dict(spec="TblAssertion", consts={Q: {"MaxDev": 2}, T: {"MaxDev": 3}}, tables=[("VERIF_TABLE_ASSERT", "c15", "assert")], cap={Q: 10**7, T: 10**7},
                 rowfilter=lambda r: r["f"].get("exp") != "future" or r["f"].get("nbf", "absent") != "absent"),
    "C10": dict(spec="TblClientAuth", consts={Q: {}, T: {}}, tables=[("VERIF_TABLE_CLIENTAUTH", "c10", "clientauth")], cap={Q: 10**7, T: 10**7}, also=["C10A"]),
    # C10 "... or presents a valid private_key_jwt assertion; every other presentation is rejected": the client-assertion rows of TblAssertion
    "C10A": dict(spec="TblAssertion", consts={Q: {"MaxDev": 2}, T: {"MaxDev": 3}}, tables=[("VERIF_TABLE_ASSERT", "c15", "assert")], cap={Q: 10**7, T: 10**7},
                 rowfilter=lambda r: r["tbl"] == "CA"),
    "C06": dict(spec="TblHmac", consts={Q: {}, T: {}}, tables=[("VERIF_TABLE_HMAC", "c06hmac", "hmac"), ("VERIF_TABLE_JWT", "c06jwt", "jwt")],
                cap={Q: 10**7, T: 10**7}, n={Q: 4, T: 40}),
    "C20": dict(spec="TblErrorWire", consts={Q: {}, T: {}}, tables=[("VERIF_TABLE_ERRWIRE", "c20wire", "errwire"), ("VERIF_TABLE_OKWIRE", "c20ok", "okwire")], cap={Q: 10**7, T: 10**7}),
    "C15": dict(spec="TblAssertion", consts={Q: {"MaxDev": 2}, T: {"MaxDev": 3}}, tables=[("VERIF_TABLE_ASSERT", "c15", "assert")], cap={Q: 10**7, T: 10**7}),
    "C14": dict(spec="TblIDToken", consts={Q: {}, T: {}}, tables=[("VERIF_TABLE_IDT", "c14", "idt")], cap={Q: 10**7, T: 10**7}),
    "C13": dict(spec="TblAuthz", consts={Q: {}, T: {}}, tables=[("VERIF_TABLE_AUTHZ", "c13", "authz")], cap={Q: 24000, T: 10**7},
                stratify=lambda r: (r["verdict"], tuple(r["types"]), r["mode"], r["regmodes"], r["reggrants"]),
                also=["C13RO"]),
    "C13RO": dict(spec="TblRequestObject", consts={Q: {}, T: {}}, tables=[("VERIF_TABLE_REQOBJ", "c13ro", "reqobj")], cap={Q: 10**7, T: 10**7}),
    "C11": dict(spec="TblRedirect", consts={Q: {"Depth": 1}, T: {"Depth": 2}},
                tables=[("VERIF_TABLE_REDIRECT", "c11", "redirect")], cap={Q: 30000, T: 10**7}),
}


def gen_tables(c, tier, wd):
    cfg = "SPECIFICATION Spec\n"
    consts = c["consts"][tier]
    if consts:
        cfg += "CONSTANTS\n" + "".join(f"  {k} = {v}\n" for k, v in consts.items())
    env = {}
    files = {}
    for envname, kind, short in c["tables"]:
        files[kind] = os.path.join(wd, f"table_{short}.json")
        env[envname] = files[kind]
    t0 = time.time()
    rc, out = tlc(wd, c["spec"], cfg, ["-workers", "1"], env=env, heap="8g", timeout=3000, cfg_name=c["spec"] + "_tbl.cfg")
    if "No error has been found" not in out:
        tail = "\n".join(l for l in out.splitlines() if not l.startswith(("Linting", "Semantic", "Parsing")))[-5000:]
        raise Indeterminate(f"decision specification {c['spec']} did not evaluate cleanly (specification bug):\n{tail}")
    for k, f in files.items():
        if not os.path.exists(f):
            raise Indeterminate(f"table {k} was not written")
    return files, round(time.time() - t0, 1)


def run_table(binary, kind, table_file, wd, shards=NCPU, timeout=3000, n=1, seed=1):
    def one(i):
        out = os.path.join(wd, f"rep_{kind}_{i}.json")
        p = run_harness(binary, "TestTable", {"VERIF_TABLE": table_file, "VERIF_TABLE_KIND": kind, "VERIF_OUT": out, "VERIF_SHARD": f"{i}/{shards}",
                                               "VERIF_N": str(n), "VERIF_SEED": str(seed)}, timeout=timeout)
        if not os.path.exists(out):
            raise Indeterminate(f"table runner {kind} failed:\n{p.stdout[-2500:]}\n{p.stderr[-2500:]}")
        return json.load(open(out))
    with ThreadPoolExecutor(shards) as ex:
        reps = list(ex.map(one, range(shards)))
    tot = {"kind": kind, "rows": reps[0]["rows"], "executed": sum(r["executed"] for r in reps), "checks": sum(r["checks"] for r in reps),
           "mismatches": [m for r in reps for m in r["mismatches"]], "notes": [n for r in reps for n in r["notes"]]}
    return tot


def corrupt_c11(rows, rnd):
    cand = [r for r in rows if not r.get("par") and r["allowed"] and r["err"] == "none" and not r["omitted"] and r["mode"] != "form_post"]
    out = []
    for r in rnd.sample(cand, min(3, len(cand))):
        r = dict(r)
        r["allowed"] = False
        out.append(r)
    # a pushed request (no redirect_uri pushed, one registered) with another recorded target than the registered URI
    cand = [r for r in rows if r.get("par") and r["pushed"] == "omitted" and len(r["reg"]) == 1 and r["code_ok"] and r["front_omitted"]]
    for r in rnd.sample(cand, min(2, len(cand))):
        r = dict(r)
        r["target"] = dict(r["target"], host="evil.example")
        out.append(r)
    return out


def corrupt_c07(rows, rnd):
    out = []
    for r in rnd.sample(rows, min(3, len(rows))):
        r = dict(r)
        r["at"] += 1
        out.append(r)
    return out


def corrupt_c10(rows, rnd):
    out = []
    cand = [r for r in rows if r["outcome"] == "ok"]
    for r in rnd.sample(cand, min(3, len(cand))):
        r = dict(r)
        r["outcome"], r["auth"] = "invalid_client", "invalid_client"
        out.append(r)
    return out


def corrupt_c13(rows, rnd):
    out = []
    cand = [r for r in rows if r["accept"]]
    for r in rnd.sample(cand, min(3, len(cand))):
        r = dict(r)
        r["accept"], r["verdict"] = False, "invalid_request"
        out.append(r)
    return out


def corrupt_c06(rows, rnd):
    out = []
    cand = [r for r in rows if r["accept"]]
    for r in rnd.sample(cand, min(3, len(cand))):
        r = dict(r)
        r["accept"] = False
        out.append(r)
    return out


def corrupt_c14(rows, rnd):
    out = []
    cand = [r for r in rows if r["issued"]]
    for r in rnd.sample(cand, min(3, len(cand))):
        r = dict(r)
        r["issued"] = False
        out.append(r)
    return out


def corrupt_c20(rows, rnd):
    out = []
    cand = [r for r in rows if r["place"] == "json" and r["writer"] == "access"]
    for r in rnd.sample(cand, min(3, len(cand))):
        r = dict(r)
        r["status"] += 1
        out.append(r)
    return out


def corrupt_c13ro(rows, rnd):
    out = []
    cand = [r for r in rows if r["outcome"] == "honoured"]
    for r in rnd.sample(cand, min(3, len(cand))):
        r = dict(r)
        r["outcome"] = "refused"
        out.append(r)
    return out


CORRUPT = {"c13ro": corrupt_c13ro, "c20wire": corrupt_c20, "c15": corrupt_c06, "c14": corrupt_c14, "c06hmac": corrupt_c06, "c06jwt": corrupt_c06, "c11": corrupt_c11, "c07life": corrupt_c07, "c10": corrupt_c10, "c13": corrupt_c13}
ATTACHED = {"C07": "C07L"}      # decision tables that are part of a stateful check


def selftest_table(binary, kind, table_file, wd, seed):
    """flip expected verdicts of a few rows: the runner must report exactly those rows"""
    rows = json.load(open(table_file))
    rnd = random.Random(seed)
    idx = rnd.sample(range(len(rows)), min(3, len(rows)))
    sub = []
    if kind in CORRUPT:
        sub = CORRUPT[kind](rows, rnd)
        idx = []
    for i in idx:
        r = dict(rows[i])
        flipped = False
        for k, v in r.items():
            if isinstance(v, bool) and k not in ("undet", "wild_undet"):
                r[k] = not v
                flipped = True
                break
        if not flipped:
            for k, v in r.items():
                if isinstance(v, str) and k in ("exp", "res", "verdict", "expect"):
                    r[k] = v + "_corrupted"
                    flipped = True
                    break
        if flipped:
            sub.append(r)
    if not sub:
        raise Indeterminate(f"self-test ({kind}): no row could be corrupted")
    f = os.path.join(wd, f"self_{kind}.json")
    json.dump(sub, open(f, "w"))
    rep = run_table(binary, kind, f, wd, shards=1)
    bad = {json.dumps(json.loads(m["row"]) if isinstance(m["row"], str) else m["row"], sort_keys=True) for m in rep["mismatches"]}
    for r in sub:
        if json.dumps(r, sort_keys=True) not in bad:
            raise Indeterminate(f"self-test FAILED ({kind}): a row with a flipped expected verdict was accepted: {json.dumps(r)[:300]}")
    log(f"[selftest] {kind}: {len(sub)} rows with flipped expectations were all reported")
    return len(sub)


def check(prop, tier, seed, replay=None):
    t0 = time.time()
    c = CHECKS[prop]
    wd = scratch(f"{prop}_{tier}")
    binary = build_harness()
    if replay:
        rp = json.load(open(replay))
        f = os.path.join(wd, "replay_table.json")
        json.dump([rp["row"]], open(f, "w"))
        rep = run_table(binary, rp["kind"], f, wd, shards=1)
        bad = [m for m in rep["mismatches"] if not m.get("undetermined")]
        for m in bad:
            log(f"VIOLATION-DETAIL {m['field']}: expected {m['exp']} observed {m['obs']}")
        if bad:
            print(f"VIOLATION property={prop} replay={replay}")
            return 1
        log("replay: no violation")
        return 0

    nviol, cov = run(prop, prop, tier, seed, binary, wd)
    for extra in c.get("also", []):      # further decision specifications of the same property
        ev, ecov = run(extra, prop, tier, seed, binary, wd)
        nviol += ev
        cov["tables"] += ecov["tables"]
        cov["samples"] += ecov["samples"]
        for k in ("evaluations", "distinct_nontrivial", "states", "transitions", "traces_validated_against_impl", "selftest_corruptions_rejected"):
            cov[k] += ecov[k]
        cov["exhaustive"] = cov["exhaustive"] and ecov["exhaustive"]
        cov.setdefault("more_specs", []).append({"spec": ecov["spec"], "tlc_table_generation_s": ecov["tlc_table_generation_s"]})
        cov["violation_replays"] += ecov["violation_replays"]
    if prop == "C20":   # second half: nothing handed to storage is a usable secret
        sv, scov = storage_events_part(prop, binary, wd)
        nviol += sv
        cov["storage_events"] = scov
        cov["traces_validated_against_impl"] += scov["events"]
    if prop == "C15":   # "a given jti is accepted at most once, also when identical requests arrive concurrently"
        import steps
        findings = [f for f in load_findings() if f.get("status") == "open"]
        part = steps.run_part(prop, binary, wd, "jti", "ScnJti", 0, "FaultKinds",
                              ["JtiAtMostOnce", "JtiSomeoneWins", "MintFresh", "TypeOK", "NoTokensOnFailure"],
                              "sim" if tier == Q else "bfs", 1500 if tier == Q else 200000, seed)
        sv, snotes, sknown, sreplays = steps.report(prop, [part], binary, wd, findings)
        nviol += sv
        cov["concurrent_presentations"] = {"scenarios": "ScnJti", "schedules_executed": len(part["histories"]), "schedules_total_or_sampled_from": part["total"],
                                           "design_model_check": part["mc"], "trace_validation": part["rep"]["stats"],
                                           "sample": part["histories"][0], "violation_replays": sreplays}
        cov["states"] += part["mc"]["distinct"]
        cov["transitions"] += part["mc"]["generated"]
        cov["traces_validated_against_impl"] += len(part["histories"])
    write_evidence(prop, tier, seed, "model_checking", cov, time.time() - t0, nviol, ASSUMPTIONS)
    shutil.rmtree(wd, ignore_errors=True)
    nrows = sum(t["rows_executed"] for t in cov["tables"])
    log(f"[done] {prop} {tier}: violations={nviol} rows={nrows}/{cov['states']} (+{cov['traces_validated_against_impl'] - nrows} schedules/events) wall={time.time()-t0:.1f}s")
    return 1 if nviol else 0


def storage_events_part(prop, binary, wd):
    ev = os.path.join(wd, "events.ndjson")
    p = run_harness(binary, "TestStorageEvents", {"VERIF_OUT": ev})
    if p.returncode != 0 or not os.path.exists(ev):
        raise Indeterminate("storage event recorder failed:\n" + p.stdout[-2000:] + p.stderr[-2000:])
    rep = os.path.join(wd, "events_report.json")
    sub = os.path.join(wd, "events_tlc")
    os.makedirs(sub, exist_ok=True)
    rc, out = tlc(sub, "StoreEvents", "SPECIFICATION Spec\nCHECK_DEADLOCK FALSE\nPOSTCONDITION Consumed\n", ["-workers", "1"],
                  env={"VERIF_TRACE": ev, "VERIF_REPORT": rep}, heap="2g", timeout=600, cfg_name="events.cfg")
    if not os.path.exists(rep) or "No error has been found" not in out:
        raise Indeterminate("validation of the storage events did not complete:\n" + out[-3000:])
    r = json.load(open(rep))
    if r["events"] < 200:
        raise Indeterminate(f"only {r['events']} storage events were recorded (dead driver)")
    findings = [f for f in load_findings() if f.get("status") == "open" and f["property"] == prop]
    groups = {}
    for v in r["violations"]:
        groups.setdefault(f"storage-{v['what']}/{v['method']}/{v['class']}", []).append(v)
    nviol, known = 0, set()
    for fp, lst in sorted(groups.items()):
        kf = [f for f in findings if re.fullmatch(f["fingerprint"], fp)]
        if kf:
            if kf[0]["id"] not in known:
                known.add(kf[0]["id"])
                print(f"KNOWN-FINDING: property={prop} {kf[0]['what']}")
            continue
        path = write_replay(prop, "events_" + hashlib.sha1(fp.encode()).hexdigest()[:10],
                            {"property": prop, "kind": "storage_events", "fingerprint": fp, "scenarios": sorted({v["scenario"] for v in lst}), "occurrences": len(lst)})
        log(f"VIOLATION-DETAIL x{len(lst)} [{fp}] in scenarios {sorted({v['scenario'] for v in lst})[:4]}")
        print(f"VIOLATION property={prop} replay={path}")
        nviol += 1
    # self-test: a planted secret in the recorded events must be reported
    lines = open(ev).read().splitlines()
    e0 = json.loads(lines[0])
    e0["keys"] = ["full:rt"]
    planted = os.path.join(wd, "events_planted.ndjson")
    open(planted, "w").write("\n".join([json.dumps(e0)] + lines[1:]) + "\n")
    rep2 = os.path.join(wd, "events_report2.json")
    tlc(sub, "StoreEvents", "SPECIFICATION Spec\nCHECK_DEADLOCK FALSE\nPOSTCONDITION Consumed\n", ["-workers", "1"],
        env={"VERIF_TRACE": planted, "VERIF_REPORT": rep2}, heap="2g", timeout=600, cfg_name="events.cfg")
    if not os.path.exists(rep2) or not any(v["class"] == "full:rt" for v in json.load(open(rep2))["violations"]):
        raise Indeterminate("self-test FAILED: a planted complete refresh token as storage key was not reported")
    log(f"[events] {r['events']} storage events validated, {len(groups)} violating classes ({len(known)} known); planted secret rejected")
    return nviol, {"events": r["events"], "violating_classes": sorted(groups.keys()), "known_findings_seen": sorted(known)}


ASSUMPTIONS = [
    "TLC 1.8 evaluates the decision specification; the ASSUMEs of the specification relate the rules to each other on the whole domain",
    "the domain is bounded (see spec_constants and the sets in the specification); nothing is claimed outside it",
    "rendering of structured inputs to strings / requests and decoding of outputs is harness code (self-test: flipped expectations are reported)"]


def run(key, prop, tier, seed, binary, wd):
    """execute the decision tables registered under `key` for property `prop`; returns (violations, coverage)"""
    c = CHECKS[key]
    findings = [f for f in load_findings() if f.get("status") == "open" and f["property"] == prop]
    files, gen_s = gen_tables(c, tier, wd)
    nviol, total_rows, total_exec, total_checks, ncorrupt = 0, 0, 0, 0, 0
    samples, undet, replays, known, parts = [], 0, [], set(), []
    for envname, kind, short in c["tables"]:
        rows = json.load(open(files[kind]))
        tf = files[kind]
        if c.get("rowfilter"):
            rows = [r for r in rows if c["rowfilter"](r)]
            tf = os.path.join(wd, f"table_{short}_filtered.json")
            json.dump(rows, open(tf, "w"))
        full = len(rows)
        cap = c["cap"][tier]
        if full > cap:
            rnd = random.Random(seed)
            rnd.shuffle(rows)
            if c.get("stratify"):
                # stratified sample: every class of rows (by expected verdict and the request features that decide it) is
                # represented; small classes -- the boundary cases -- completely
                groups = {}
                for r in rows:
                    groups.setdefault(c["stratify"](r), []).append(r)
                quota = max(4, cap // (2 * len(groups)))
                picked, rest = [], []
                for g in groups.values():
                    picked += g[:quota]
                    rest += g[quota:]
                rows = picked + rest[:max(0, cap - len(picked))]
            else:
                rows = rows[:cap]
            tf = os.path.join(wd, f"table_{short}_sample.json")
            json.dump(rows, open(tf, "w"))
        rep = run_table(binary, kind, tf, wd, n=c.get("n", {}).get(tier, 1), seed=seed)
        total_rows += full
        total_exec += rep["executed"]
        total_checks += rep["checks"]
        samples.append({"kind": kind, "row": rows[len(rows) // 2]})
        groups = {}
        for m in rep["mismatches"]:
            if m.get("undetermined"):
                undet += 1
                continue
            rw = m["row"] if not isinstance(m["row"], str) else json.loads(m["row"])
            gk = (re.sub(r"_at_age_\d+|_age_\d+", "", m["field"]), str(m["exp"]), str(m["obs"]))
            if kind == "c10":      # which presentation at which endpoint: a known finding names exactly one
                gk = (m["field"], f"{m['exp']}/{m['obs']}", f"{rw.get('transport')}@{rw.get('endpoint')}")
            if kind == "c11":
                gk = (m["field"], json.dumps(rw.get("front" if rw.get("par") else "req"), sort_keys=True), "")
            elif kind in ("c14", "c06hmac") and m["field"] in ("at_hash", "c_hash", "at_hash_absent", "c_hash_absent", "state_unchanged_after_refusal"):
                gk = (m["field"], rw.get("key", rw.get("mut", "")), rw.get("flow", rw.get("kind", "")))
            groups.setdefault(gk, []).append(m)
        for key, lst in sorted(groups.items()):
            m = lst[0]
            row = m["row"] if not isinstance(m["row"], str) else json.loads(m["row"])
            fp = f"{kind}/{key[0]}/{key[1]}/{key[2]}"
            if kind == "c11":       # the observed Location contains fresh random credentials: group by the requested URI
                fp = f"{kind}/{key[0]}/" + "".join(str(row["front" if row.get("par") else "req"].get(k, "")) for k in ("scheme", "userinfo", "host", "port", "path", "query", "fragment"))
            kf = [f for f in findings if re.fullmatch(f["fingerprint"], fp)]
            if kf:
                if kf[0]["id"] not in known:
                    known.add(kf[0]["id"])
                    print(f"KNOWN-FINDING: property={prop} {kf[0]['what']}")
                continue
            name = hashlib.sha1((fp + json.dumps(row, sort_keys=True)).encode()).hexdigest()[:10]
            path = write_replay(prop, name, {"property": prop, "kind": kind, "row": row, "field": m["field"], "expected": m["exp"], "observed": m["obs"],
                                             "fingerprint": fp, "occurrences": len(lst)})
            log(f"VIOLATION-DETAIL x{len(lst)} [{fp}] row {json.dumps(row)[:500]}")
            print(f"VIOLATION property={prop} replay={path}")
            replays.append(path)
            nviol += 1
        for n in sorted(set(rep["notes"]))[:10]:
            log(f"NOTE [{kind}] {n}")
        try:
            ncorrupt += selftest_table(binary, kind, files[kind], wd, seed)
        except Indeterminate as ex:
            if not nviol:
                raise
            # violations were reproduced on the real code; the self-test needs rows the implementation decides as the
            # specification says, and a tree that breaks the property may decide exactly the chosen rows differently
            log(f"[selftest] skipped on a violating tree: {ex}")
        parts.append({"kind": kind, "rows_in_spec_table": full, "rows_executed": rep["executed"], "comparisons": rep["checks"],
                      "mismatching_rows": len(rep["mismatches"]), "complete": full == rep["executed"]})
        log(f"[table] {kind}: {rep['executed']}/{full} rows executed, {rep['checks']} comparisons, {len(rep['mismatches'])} mismatches")
    cov = {"evaluations": total_checks, "distinct_nontrivial": total_exec,
           "rule": "a case is one row of a decision table enumerated completely by TLC from the decision specification (input record + expected verdict), concretised and executed on the real code; all rows are distinct by construction; non-trivial = all (each row is one point of the bounded input domain)",
           "samples": samples, "states": total_rows, "transitions": total_checks, "traces_validated_against_impl": total_exec,
           "exhaustive": all(p["complete"] for p in parts), "tables": parts, "undetermined_rows_observed": undet,
           "spec": c["spec"], "spec_constants": c["consts"][tier], "tlc_table_generation_s": gen_s,
           "selftest_corruptions_rejected": ncorrupt, "violation_replays": replays, "known_findings_seen": sorted(known)}
    return nviol, cov

