CHECKS = {}
def check(prop, tier, seed, replay=None):
    return 2
