#!/usr/bin/env python3
"""Regenerate the measured-cost table of DESIGN.md (between the COSTS markers) from evidence/summary.json."""
import json, os
ROOT = os.path.dirname(os.path.dirname(os.path.abspath(__file__)))
s = json.load(open(os.path.join(ROOT, "evidence", "summary.json")))


def cell(d):
    if not d:
        return "not run"
    parts = [f"{d['wall_s']:.0f} s"]
    if d.get("states"):
        parts.append(f"{d['states']:,} states / rows of the specification".replace(",", " "))
    if d.get("executions_on_real_code"):
        parts.append(f"{d['executions_on_real_code']:,} executions on the real code".replace(",", " "))
    if d.get("evaluations"):
        parts.append(f"{d['evaluations']:,} compared steps".replace(",", " "))
    return ", ".join(parts)


rows = ["| check | quick | thorough |", "|---|---|---|"]
for p in sorted(s):
    rows.append(f"| {p} | {cell(s[p].get('quick'))} | {cell(s[p].get('thorough'))} |")
tot = lambda t: sum(v[t]["wall_s"] for v in s.values() if t in v)
rows.append(f"| all | {tot('quick')/60:.0f} min | {tot('thorough')/60:.0f} min |")
path = os.path.join(ROOT, "DESIGN.md")
d = open(path).read()
a, b = "<!-- COSTS-BEGIN -->", "<!-- COSTS-END -->"
d = d[:d.index(a) + len(a)] + "\n" + "\n".join(rows) + "\n" + d[d.index(b):]
open(path, "w").write(d)
print("\n".join(rows))
