"""Checks decided by the stateful specification (Store/Grants/MCGrants/TraceGrants):
C01 C02 C03 C04 C05 C07 C08 C09 C16 C17.

Pipeline of one check:
  1. exhaustive TLC run of the bounded design (property invariants in every state);
  2. TLC generates behaviours of the specification (all of a shallow depth + random deep);
  3. the Go harness replays them on the real ory/fosite code in /repo and records a trace;
  4. TLC validates the trace against the specification (TraceGrants.tla), step by step;
  5. every disagreement is attributed by its reason tag; disagreements owned by the
     property under check are re-executed once and reported as VIOLATION;
  6. a self-test corrupts recorded fields and requires the validator to reject them.
"""
import copy, json, os, random, sys, time
from vlib import *

Q, T = "quick", "thorough"

# bounds fitted to measured state counts (see DESIGN.md section 8)
P = {
    "C01": dict(family="C01", mc={Q: ("CfgsRS", dict(MaxCodes=2, MaxAT=4, MaxRT=3, MaxNow=2, Depth=7)),
                                  T: ("CfgsRS", dict(MaxCodes=2, MaxAT=6, MaxRT=4, MaxNow=3, Depth=10))},
                genx={Q: ("CfgsRS", 4), T: ("CfgsStrategies", 5)},
                sim={Q: ("CfgsStrategiesC", 400, 14), T: ("CfgsStrategiesC", 6000, 24)},
                simb=dict(MaxCodes=3, MaxAT=14, MaxRT=10, MaxNow=4),
                more=[dict(family="C01b", mc={Q: ("CfgsExpiry", dict(MaxCodes=1, MaxAT=4, MaxRT=3, MaxNow=3, Depth=8)),
                                               T: ("CfgsExpiry", dict(MaxCodes=2, MaxAT=5, MaxRT=4, MaxNow=4, Depth=10))},
                           genx={Q: ("CfgsExpiry", 6), T: ("CfgsExpiry", 8)},
                           sim={Q: ("CfgsExpiryC", 200, 12), T: ("CfgsExpiryC", 3000, 20)},
                           simb=dict(MaxCodes=2, MaxAT=10, MaxRT=8, MaxNow=6))]),
    "C02": dict(family="C02", mc={Q: ("CfgsCode", dict(MaxCodes=1, MaxAT=3, MaxRT=2, MaxNow=3, Depth=4)),
                                  T: ("CfgsCodeT", dict(MaxCodes=2, MaxAT=4, MaxRT=3, MaxNow=3, Depth=5))},
                genx={Q: ("CfgsCode", 2), T: ("CfgsCode", 3)},
                sim={Q: ("CfgsCodeTC", 500, 8), T: ("CfgsCodeTC", 8000, 14)},
                simb=dict(MaxCodes=3, MaxAT=8, MaxRT=6, MaxNow=4)),
    "C03": dict(family="C03", mc={Q: ("CfgsPkce", dict(MaxCodes=1, MaxAT=3, MaxRT=2, MaxNow=0, Depth=5)),
                                  T: ("CfgsPkce", dict(MaxCodes=2, MaxAT=4, MaxRT=3, MaxNow=0, Depth=6))},
                genx={Q: ("CfgsPkce", 3), T: ("CfgsPkce", 4)},
                sim={Q: ("CfgsPkceC", 400, 8), T: ("CfgsPkceC", 6000, 12)},
                simb=dict(MaxCodes=3, MaxAT=8, MaxRT=6, MaxNow=0)),
    "C04": dict(family="C04", mc={Q: ("CfgsOne", dict(MaxCodes=1, MaxAT=4, MaxRT=4, MaxNow=1, Depth=8)),
                                  T: ("CfgsStrategies", dict(MaxCodes=1, MaxAT=5, MaxRT=4, MaxNow=1, Depth=9))},
                genx={Q: ("CfgsOne", 4), T: ("CfgsOne", 6)},
                sim={Q: ("CfgsRefreshC", 400, 16), T: ("CfgsRefreshC", 6000, 30)},
                simb=dict(MaxCodes=3, MaxAT=16, MaxRT=14, MaxNow=5),
                more=[dict(family="C04b", mc={Q: ("CfgsExpiry", dict(MaxCodes=0, MaxAT=4, MaxRT=4, MaxNow=4, Depth=8)),
                                               T: ("CfgsExpiry", dict(MaxCodes=0, MaxAT=6, MaxRT=6, MaxNow=5, Depth=11))},
                           genx={Q: ("CfgsExpiry", 7), T: ("CfgsExpiry", 10)},
                           sim={Q: ("CfgsExpiryC", 100, 12), T: ("CfgsExpiryC", 2000, 20)},
                           simb=dict(MaxCodes=0, MaxAT=10, MaxRT=10, MaxNow=6))]),
    "C05": dict(family="C05", mc={Q: ("CfgsRS", dict(MaxCodes=1, MaxAT=3, MaxRT=3, MaxNow=0, MaxDev=1, Depth=4)),
                                  T: ("CfgsRefresh", dict(MaxCodes=1, MaxAT=4, MaxRT=3, MaxNow=0, MaxDev=1, Depth=5))},
                genx={Q: ("CfgsRS", 3), T: ("CfgsRSB", 3)},
                sim={Q: ("CfgsRefreshC", 500, 10), T: ("CfgsRefreshC", 8000, 16)},
                simb=dict(MaxCodes=3, MaxAT=10, MaxRT=8, MaxNow=0, MaxDev=2),
                more=[dict(family="C05b", mc={Q: ("CfgsRSB", dict(MaxCodes=1, MaxAT=3, MaxRT=2, MaxNow=0, MaxDev=1, Depth=5)),
                                               T: ("CfgsRSB", dict(MaxCodes=2, MaxAT=4, MaxRT=3, MaxNow=0, MaxDev=1, Depth=7))},
                           genx={Q: ("CfgsRSB", 4), T: ("CfgsRSB", 4)},
                           sim={Q: ("CfgsRSBC", 300, 8), T: ("CfgsRSBC", 4000, 12)},
                           simb=dict(MaxCodes=2, MaxAT=8, MaxRT=6, MaxNow=0, MaxDev=2)),
                      dict(family="C05c", mc={Q: ("CfgsRS", dict(MaxCodes=0, MaxAT=4, MaxRT=4, MaxNow=0, MaxDev=1, Depth=7)),
                                               T: ("CfgsRSB", dict(MaxCodes=0, MaxAT=5, MaxRT=5, MaxNow=0, MaxDev=1, Depth=9))},
                           genx={Q: ("CfgsRS", 6), T: ("CfgsRSB", 8)},
                           sim={Q: ("CfgsRSC", 100, 10), T: ("CfgsRSBC", 1500, 14)},
                           simb=dict(MaxCodes=0, MaxAT=8, MaxRT=8, MaxNow=0, MaxDev=1))]),
    "C07": dict(family="C07", mc={Q: ("CfgsExpiry", dict(MaxCodes=1, MaxAT=3, MaxRT=2, MaxNow=4, Depth=7)),
                                  T: ("CfgsExpiry", dict(MaxCodes=2, MaxAT=4, MaxRT=3, MaxNow=5, Depth=9))},
                genx={Q: ("CfgsExpiry", 4), T: ("CfgsExpiry", 5)},
                sim={Q: ("CfgsExpiryC", 500, 14), T: ("CfgsExpiryC", 8000, 22)},
                simb=dict(MaxCodes=3, MaxAT=10, MaxRT=8, MaxNow=8),
                more=[dict(family="C07b", mc={Q: ("CfgsExpiry", dict(MaxCodes=1, MaxAT=3, MaxRT=3, MaxNow=5, MaxDev=1, Depth=9)),
                                               T: ("CfgsExpiry", dict(MaxCodes=1, MaxAT=4, MaxRT=4, MaxNow=6, MaxDev=1, Depth=11))},
                           genx={Q: ("CfgsExpiry", 8), T: ("CfgsExpiry", 10)},
                           sim={Q: ("CfgsExpiryC", 100, 12), T: ("CfgsExpiryC", 2000, 18)},
                           simb=dict(MaxCodes=1, MaxAT=8, MaxRT=8, MaxNow=7, MaxDev=1))]),
    "C08": dict(family="C08", mc={Q: ("CfgsOne", dict(MaxCodes=1, MaxAT=3, MaxRT=2, MaxNow=1, Depth=6)),
                                  T: ("CfgsStrategies", dict(MaxCodes=2, MaxAT=5, MaxRT=3, MaxNow=2, Depth=7))},
                genx={Q: ("CfgsStrategies", 3), T: ("CfgsStrategies", 4)},
                sim={Q: ("CfgsStrategiesC", 400, 12), T: ("CfgsStrategiesC", 6000, 20)},
                simb=dict(MaxCodes=3, MaxAT=10, MaxRT=8, MaxNow=4),
                more=[dict(family="C08b", mc={Q: ("CfgsExpiry", dict(MaxCodes=0, MaxAT=3, MaxRT=3, MaxNow=4, Depth=7)),
                                               T: ("CfgsExpiry", dict(MaxCodes=0, MaxAT=4, MaxRT=4, MaxNow=4, Depth=9))},
                           genx={Q: ("CfgsExpiry", 6), T: ("CfgsExpiry", 8)},
                           sim={Q: ("CfgsExpiryC", 100, 12), T: ("CfgsExpiryC", 2000, 18)},
                           simb=dict(MaxCodes=0, MaxAT=8, MaxRT=8, MaxNow=6))]),
    "C09": dict(family="C09", mc={Q: ("CfgsIntrospect", dict(MaxCodes=1, MaxAT=3, MaxRT=2, MaxNow=2, Depth=5)),
                                  T: ("CfgsIntrospect", dict(MaxCodes=2, MaxAT=4, MaxRT=3, MaxNow=3, Depth=6))},
                genx={Q: ("CfgsOne", 3), T: ("CfgsIntrospect", 3)},
                sim={Q: ("CfgsIntrospectC", 500, 12), T: ("CfgsIntrospectC", 8000, 20)},
                simb=dict(MaxCodes=3, MaxAT=10, MaxRT=8, MaxNow=5)),
    "C16": dict(family="C16", mc={Q: ("CfgsDevice", dict(MaxCodes=0, MaxAT=3, MaxRT=3, MaxNow=3, MaxDev=2, Depth=7)),
                                  T: ("CfgsDevice", dict(MaxCodes=0, MaxAT=4, MaxRT=4, MaxNow=3, MaxDev=2, Depth=9))},
                genx={Q: ("CfgsDevice", 4), T: ("CfgsDevice", 5)},
                sim={Q: ("CfgsDeviceC", 400, 12), T: ("CfgsDeviceC", 6000, 20)},
                simb=dict(MaxCodes=0, MaxAT=10, MaxRT=8, MaxNow=4, MaxDev=3),
                more=[dict(family="C16b", mc={Q: ("CfgsDevice", dict(MaxCodes=0, MaxAT=3, MaxRT=3, MaxNow=4, MaxDev=1, Depth=8)),
                                               T: ("CfgsDevice", dict(MaxCodes=0, MaxAT=4, MaxRT=4, MaxNow=4, MaxDev=2, Depth=10))},
                           genx={Q: ("CfgsDevice", 7), T: ("CfgsDevice", 9)},
                           sim={Q: ("CfgsDeviceC", 100, 12), T: ("CfgsDeviceC", 2000, 18)},
                           simb=dict(MaxCodes=0, MaxAT=8, MaxRT=8, MaxNow=5, MaxDev=2))]),
    "C17": dict(family="C17", mc={Q: ("CfgsPar", dict(MaxCodes=2, MaxAT=3, MaxRT=2, MaxNow=3, MaxPar=2, Depth=5)),
                                  T: ("CfgsPar", dict(MaxCodes=3, MaxAT=4, MaxRT=3, MaxNow=3, MaxPar=2, Depth=6))},
                genx={Q: ("CfgsPar", 2), T: ("CfgsPar", 3)},
                sim={Q: ("CfgsParC", 400, 10), T: ("CfgsParC", 6000, 16)},
                simb=dict(MaxCodes=4, MaxAT=8, MaxRT=6, MaxNow=4, MaxPar=3),
                more=[dict(family="C17b", mc={Q: ("CfgsPar", dict(MaxCodes=2, MaxAT=3, MaxRT=2, MaxNow=4, MaxPar=2, Depth=7)),
                                               T: ("CfgsPar", dict(MaxCodes=3, MaxAT=4, MaxRT=3, MaxNow=4, MaxPar=3, Depth=9))},
                           genx={Q: ("CfgsPar", 6), T: ("CfgsPar", 8)},
                           sim={Q: ("CfgsParC", 200, 10), T: ("CfgsParC", 3000, 16)},
                           simb=dict(MaxCodes=4, MaxAT=8, MaxRT=6, MaxNow=5, MaxPar=3))]),
}
DEFB = dict(MaxCodes=2, MaxAT=4, MaxRT=3, MaxNow=2, MaxDev=1, MaxPar=1, Depth=6)


def bounds(b):
    x = dict(DEFB)
    x.update(b)
    return x


def fingerprint(m):
    fps = []
    op = m["op"]["op"]
    f = set(m["fields"])
    if m.get("prop") == "property":
        return [f"{op}/property/{x}" for x in m["fields"]]
    if "res" in f:
        fps.append(f"{op}/res/{m['exp_reason']}/{m['obs_res']}")
    if "issued" in f:
        fps.append(f"{op}/issued/{m['exp_reason']}")
    if "probe_active" in f:
        for k in ("at", "rt"):
            for x in m["extra_active_" + k]:
                fps.append(f"{op}/still_active/{k}/{x['why']}")
            if m["missing_other_" + k]:
                fps.append(f"{op}/overkill/{k}")
    for k in ("probe_payload", "expin", "idt", "note", "proj"):
        if k in f:
            fps.append(f"{op}/{k}")
    return fps


def history_prefix(h, m):
    """the part of history h up to and including the mismatching operation"""
    # trace lines: one reset + one per op; m['line'] is the global line in a shard file, so
    # locate the op by its position in the history instead
    return h


def run_and_validate(binary, histories, wd, tag):
    traces = exec_histories(binary, histories, wd, tag)
    rep = validate_traces(traces, wd)
    return traces, rep


def selftest(binary, histories, wd, seed):
    """Demonstrate the binding: corrupted recorded fields must be rejected at exactly the
    corrupted step (DESIGN.md 4.4)."""
    rnd = random.Random(seed)
    # histories that are likely to hand out tokens first (the corruptions need a successful result, a non-empty
    # probe and an issued token), then the longest ones
    issuing = {"redeem", "devpoll", "password", "ccreds", "refresh", "authorize"}
    hs = sorted(histories, key=lambda h: (-len({o["op"] for o in h["ops"]} & issuing), -len(h["ops"])))[:80]
    if len(hs) < 3:
        raise Indeterminate("self-test: not enough histories")
    traces = exec_histories(binary, hs, wd, "self", shards=1)
    lines = [json.loads(l) for l in open(traces[0])]
    clean = validate_traces(traces, wd)
    bad_h = {m["h"] for m in clean["mismatches"]}
    # choose three clean histories and corrupt one recorded field in each
    by_h = {}
    for idx, e in enumerate(lines):
        if e["ev"] == "op":
            by_h.setdefault(e["h"], []).append(idx)
    cands = [h for h in by_h if h not in bad_h]
    rnd.shuffle(cands)
    want = []
    kinds = ["res", "probe", "issued"]
    for kind in kinds:
        for h in list(cands):
            idxs = by_h[h]
            pick = None
            for idx in idxs:
                e = lines[idx]
                if kind == "res" and e["obs"]["res"] == "ok" and e["op"]["op"] not in ("tick", "clientchange", "devdecide"):
                    e["obs"]["res"] = "invalid_grant"
                    pick = idx
                elif kind == "probe" and e["at"]:
                    e["at"] = e["at"][1:]
                    pick = idx
                elif kind == "issued" and e["obs"]["new"]["at"] != 0:
                    e["obs"]["new"]["at"] += 1
                    pick = idx
                if pick is not None:
                    break
            if pick is not None:
                want.append((kind, h, pick + 1))
                cands.remove(h)
                break
    if len(want) < 2:
        raise Indeterminate("self-test: could not place corruptions")
    ctf = os.path.join(wd, "self.corrupt.ndjson")
    with open(ctf, "w") as f:
        for e in lines:
            f.write(json.dumps(e) + "\n")
    rep = validate_traces([ctf], wd)
    got = {(m["h"], m["line"]) for m in rep["mismatches"]}
    for kind, h, line in want:
        if (h, line) not in got:
            raise Indeterminate(f"self-test FAILED: corrupted {kind} at history {h} line {line} was accepted by the validator")
    log(f"[selftest] {len(want)} corrupted records rejected at the corrupted step: {want}")
    return len(want)


def check(prop, tier, seed, replay=None):
    t0 = time.time()
    p = P[prop]
    wd = scratch(f"{prop}_{tier}")
    binary = build_harness()
    findings = [f for f in load_findings() if f.get("status") == "open"]

    if replay:
        rp = json.load(open(replay))
        hs = [rp["history"]]
        traces, rep = run_and_validate(binary, hs, wd, "replay")
        bad = 0
        for m in rep["mismatches"]:
            v, text = classify(m, prop)
            log(("VIOLATION-DETAIL " if v == "violation" else "NOTE ") + text)
            bad += v == "violation"
        if bad:
            print(f"VIOLATION property={prop} replay={replay}")
            return 1
        log("replay: no violation")
        return 0

    # 1. design check (runs concurrently with generation/execution) and 2. behaviour generation,
    #    for the property's family and any additional families
    pool = ThreadPoolExecutor(1)
    parts = [p] + p.get("more", [])
    mcfs, histories, gen_info = [], [], []
    for n, part in enumerate(parts):
        cfgs, b = part["mc"][tier]
        mcwd = scratch(f"{prop}_{tier}_mc{n}")
        # the refinement action property triples the cost of a run: always at quick, at thorough only for the families it is about
        refine = tier == Q or part["family"] in ("C04", "C04b", "C01b", "C08b")
        mcfs.append((mcwd, pool.submit(model_check, part["family"], cfgs, bounds(b), mcwd, 8, 3000, False, refine)))
        gx_cfgs, gx_depth = part["genx"][tier]
        gb = bounds(dict(part["mc"][tier][1], Depth=gx_depth))
        hx, gxstat = gen_exhaustive(part["family"], gx_cfgs, gb, wd, tail_k=(8 if tier == Q else 24), seed=seed, tail_budget=(60000 if tier == Q else 400000))
        cap = 12000 if tier == Q else 60000
        gx_total = len(hx)
        if len(hx) > cap:      # keep a seeded sample; the evidence then does not claim exhaustiveness
            random.Random(seed).shuffle(hx)
            hx = hx[:cap]
        s_cfgs, s_num, s_depth = part["sim"][tier]
        hsim = gen_simulate(part["family"], s_cfgs, bounds(dict(part["simb"], Depth=s_depth)), wd, s_num, seed)
        histories += hx + hsim
        gen_info.append({"family": part["family"], "exhaustive_generation": {"depth": gx_depth, "cfgs": gx_cfgs, "histories": len(hx), "of": gx_total,
                         "complete": len(hx) == gx_total, "states": gxstat.get("distinct", 0),
                         "inert_operations_appended": gxstat.get("inert_ops_appended", 0),
                         "inert_operations_per_state": "seeded sample of 8" if tier == Q else "seeded sample of 24 (all, where a state has fewer)"},
                         "simulated_generation": {"depth": s_depth, "cfgs": s_cfgs, "histories": len(hsim), "seed": seed}})
        log(f"[gen] {part['family']}: {len(hx)} state-cover histories of depth {gx_depth} (+{gxstat.get('inert_ops_appended', 0)} refused/query operations appended), {len(hsim)} simulated histories of depth {s_depth}")

    # 3+4. execute on the real code, validate against the specification
    traces, rep = run_and_validate(binary, histories, wd, "main")
    st = rep["stats"]
    log(f"[validate] {st['histories']} traces, {rep['lines']} lines: matched {st['matched']}, soft {st.get('soft',0)}, diverged {st['diverged']}, skipped {st['skipped']}")

    mcs = []
    for mcwd, f in mcfs:
        mcs.append(f.result())
        shutil.rmtree(mcwd, ignore_errors=True)
    mc = mcs[0]

    # 5. attribution
    viol, notes, known = {}, {}, {}
    for m in rep["mismatches"]:
        v, text = classify(m, prop)
        fps = fingerprint(m)
        if v == "violation":
            kf = [f for f in findings if f["property"] == prop and any(fp == f["fingerprint"] for fp in fps)]
            if kf:
                known.setdefault(kf[0]["id"], (kf[0], m, text))
                continue
            key = fps[0] if fps else text
            viol.setdefault(key, []).append((m, text))
        else:
            key = (fps[0] if fps else text)
            notes.setdefault(key, []).append((m, text))
    for k, v in sorted(notes.items()):
        log(f"NOTE x{len(v)} [{k}] {v[0][1][:600]}")
        # a note is a disagreement that belongs to another property's check (or to nobody): keep its shortest history for inspection
        m0 = min(v, key=lambda x: len(histories[x[0]["h"] - 1]["ops"]))[0]
        nd = os.path.join(WORK, "notes")
        os.makedirs(nd, exist_ok=True)
        with open(os.path.join(nd, f"{prop}_{hashlib.sha1(k.encode()).hexdigest()[:10]}.json"), "w") as nf:
            json.dump({"property": prop, "note": k, "text": v[0][1], "history": histories[m0["h"] - 1], "mismatch": m0}, nf, indent=1, sort_keys=True, default=str)
    for fid, (f, m, text) in known.items():
        print(f"KNOWN-FINDING: property={prop} {f['what']}")
    nviol = 0
    replays = []
    for key, lst in sorted(viol.items()):
        m, text = min(lst, key=lambda x: len(histories[x[0]["h"] - 1]["ops"]))
        h = histories[m["h"] - 1]
        # confirm determinism: re-run this single history
        _, rep2 = run_and_validate(binary, [h], wd, "confirm")
        again = [x for x in rep2["mismatches"] if classify(x, prop)[0] == "violation"]
        if not again:
            log(f"UNCONFIRMED (not reproduced on re-execution, ignored): {text}")
            continue
        name = hashlib.sha1(key.encode()).hexdigest()[:10]
        path = write_replay(prop, name, {"property": prop, "history": h, "fingerprint": key, "explanation": text,
                                         "expected": {"res": m["exp_res"], "reason": m["exp_reason"], "issued": m["exp_issued"]},
                                         "observed": {"res": m["obs_res"], "issued": m["obs_issued"]}, "occurrences": len(lst)})
        log(f"VIOLATION-DETAIL x{len(lst)} [{key}] {text[:900]}")
        print(f"VIOLATION property={prop} replay={path}")
        replays.append(path)
        nviol += 1

    # 6. binding self-test
    try:
        ncorrupt = selftest(binary, histories, wd, seed)
    except Indeterminate as ex:
        if not nviol:
            raise
        # violations were reproduced on the real code; the self-test needs histories the implementation
        # follows, and there may be none left on a tree that breaks the property
        log(f"[selftest] skipped on a violating tree: {ex}")
        ncorrupt = 0

    # 7. decision tables attached to this property
    table_cov = None
    import tables
    if prop in tables.ATTACHED:
        key = tables.ATTACHED[prop]
        tv, table_cov = tables.run(key, prop, tier, seed, binary, wd)
        nviol += tv
        for extra in tables.CHECKS[key].get("also", []):
            ev, ecov = tables.run(extra, prop, tier, seed, binary, wd)
            nviol += ev
            table_cov["tables"] += ecov["tables"]
            table_cov["violation_replays"] = table_cov.get("violation_replays", []) + ecov.get("violation_replays", [])
            table_cov.setdefault("more_specs", []).append({"spec": ecov["spec"], "rows": ecov.get("evaluations")})

    # 8. C17: the life of a request_uri under storage failures (Steps.tla: one fault at every storage call of push / use,
    #    then a second and third use)
    #    C03: a code issued with a challenge, redeemed (without / with the right / with a wrong verifier) while a storage call fails
    steps_cov = None
    STEP_PARTS = {"C17": ("ScnParFault", ["ParAtMostOnce", "NoTokensOnFailure", "FailClosed", "RetryStillGuarded", "TypeOK"]),
                  "C03": ("ScnPkceFault", ["NoTokensOnFailure", "FailClosed", "RetryStillGuarded", "TypeOK"]),
                  "C04": ("ScnReuseFault", ["NoTokensOnFailure", "FailClosed", "RetryStillGuarded", "TypeOK"])}
    if prop in STEP_PARTS:
        import steps
        scn, invs = STEP_PARTS[prop]
        part = steps.run_part(prop, binary, wd, "stepfault", scn, 1, "FaultKinds", invs, "bfs", 4000 if tier == Q else 100000, seed)
        sv, snotes, sknown, sreplays = steps.report(prop, [part], binary, wd, findings)
        nviol += sv
        replays = replays + sreplays
        steps_cov = {"scenarios": scn, "max_faults": 1, "schedules_executed": len(part["histories"]), "schedules_total": part["total"],
                     "design_model_check": part["mc"], "trace_validation": part["rep"]["stats"], "sample": part["histories"][0], "violation_replays": sreplays}

    # vacuity: the alphabet must have exercised the reasons this property owns
    nontrivial = set()
    for h in histories:
        nontrivial.add(json.dumps(h["ops"], sort_keys=True))
    cov = {
        "states": sum(x["distinct"] for x in mcs), "transitions": sum(x["generated"] for x in mcs),
        "traces_validated_against_impl": st["histories"],
        "samples": [histories[0], histories[len(histories) // 2], histories[-1]],
        "exhaustive": False,
        "evaluations": rep["lines"] - st["histories"],
        "distinct_nontrivial": len(nontrivial),
        "rule": "a case is one operation history generated by TLC from MCGrants.tla (all histories of the shallow depth plus seeded random deep ones), executed on the real code; distinct = distinct operation sequence",
        "design_model_check": mcs,
        "generation": gen_info,
        "trace_validation": st, "trace_lines": rep["lines"],
        "notes": {k: len(v) for k, v in notes.items()},
        "known_findings_seen": sorted(known.keys()),
        "selftest_corruptions_rejected": ncorrupt,
        "violation_replays": replays,
    }
    if prop == "C04" and tier != Q:
        cov["unbounded_family_core"] = apalache_core(wd)
    if steps_cov:
        cov["storage_fault_schedules"] = steps_cov
        cov["traces_validated_against_impl"] += steps_cov["schedules_executed"]
    if table_cov:
        cov["decision_tables"] = table_cov
        cov["violation_replays"] = replays + table_cov.get("violation_replays", [])
    write_evidence(prop, tier, seed, "model_checking", cov, time.time() - t0, nviol, [
        "TLC 1.8 and the CommunityModules Json module are trusted",
        "Go 1.26 testing/synctest fake clock: one tick = 10 min, operations take zero time",
        "bounded design: see design_model_check.bounds; beyond them only the seeded histories",
        "harness projection/abstraction code (exercised by the corruption self-test)"])
    shutil.rmtree(wd, ignore_errors=True)
    log(f"[done] {prop} {tier}: violations={nviol} notes={sum(len(v) for v in notes.values())} wall={time.time()-t0:.1f}s")
    return 1 if nviol else 0
