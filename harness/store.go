package harness

import (
	"context"
	"errors"
	"fmt"
	"github.com/mohae/deepcopy"
	"maps"
	"net/url"
	"sync"
	"time"

	"github.com/go-jose/go-jose/v3"

	"github.com/ory/fosite"
	"github.com/ory/fosite/storage"
)

type procKeyT struct{}

var procKey = procKeyT{}

// WithProc tags a context with the id of the (abstract) process issuing the request, so
// the storage log can attribute every storage call to the public call it belongs to.
func WithProc(ctx context.Context, p int) context.Context {
	return context.WithValue(ctx, procKey, p)
}
func procOf(ctx context.Context) int {
	if v, ok := ctx.Value(procKey).(int); ok {
		return v
	}
	return 0
}

// StoreEv is one call at the storage interface.
type StoreEv struct {
	Seq    int        `json:"seq"`
	Proc   int        `json:"proc"`
	Method string     `json:"m"`
	Keys   []string   `json:"-"`
	Form   url.Values `json:"-"`
	RID    string     `json:"-"`
	Err    string     `json:"err,omitempty"`
	Fault  string     `json:"fault,omitempty"`
}

// RecStore wraps the reference MemoryStore: every storage-interface call is (a) offered
// to a hook that may park the caller (scheduler gate) or inject a fault, (b) logged, and
// (c) delegated unchanged to the real store.
type RecStore struct {
	*storage.MemoryStore
	mu   sync.Mutex
	seq  int
	Log  []StoreEv
	Hook func(ctx context.Context, ev *StoreEv) error // nil = no gate, no faults
	Keep bool                                         // keep the log (off in bulk runs that do not need it)
	Copy bool                                         // copying store: requests are copied on the way in and on the way out

	// creation order of rows per kind ("code","at","rt","dev","par"): the abstract id of a
	// credential is its position in this list, which is how the specification numbers them
	Order map[string][]string

	nonces map[string]nonceRow // handler/verifiable NonceManager
}

// cpReq / cpOut implement the "copying store" configuration: what is handed to the store is copied on the way in and what
// the store hands out is copied on the way out, as any store that serialises requests does. Handlers must not rely on
// sharing objects with the store.
func cpAny[T any](on bool, r T) T {
	if !on {
		return r
	}
	if any(r) == nil {
		return r
	}
	return deepcopy.Copy(r).(T)
}

// rehydrate gives a request that left the copying store the CURRENT registration of its client, as a store that
// keeps the client id and loads the client on read does (a deep copy alone would freeze the registration).
func (s *RecStore) rehydrate(r interface{}) {
	if !s.Copy || r == nil {
		return
	}
	var req *fosite.Request
	switch x := r.(type) {
	case *fosite.Request:
		req = x
	case *fosite.AccessRequest:
		req = &x.Request
	case *fosite.AuthorizeRequest:
		req = &x.Request
	case *fosite.DeviceRequest:
		req = &x.Request
	}
	if req == nil || req.Client == nil {
		return
	}
	if cur, ok := s.MemoryStore.Clients[req.Client.GetID()]; ok {
		req.Client = cur
	}
}

func NewRecStore(m *storage.MemoryStore) *RecStore {
	return &RecStore{MemoryStore: m, Keep: true, Order: map[string][]string{}}
}

func (s *RecStore) created(kind, key string) {
	s.mu.Lock()
	s.Order[kind] = append(s.Order[kind], key)
	s.mu.Unlock()
}

// IDOf returns the abstract id (creation index, 1-based) of a row key, 0 if unknown.
func (s *RecStore) IDOf(kind, key string) int {
	s.mu.Lock()
	defer s.mu.Unlock()
	for i, k := range s.Order[kind] {
		if k == key {
			return i + 1
		}
	}
	return 0
}
func (s *RecStore) KeyOf(kind string, id int) string {
	s.mu.Lock()
	defer s.mu.Unlock()
	if id >= 1 && id <= len(s.Order[kind]) {
		return s.Order[kind][id-1]
	}
	return ""
}
func (s *RecStore) Keys(kind string) []string {
	s.mu.Lock()
	defer s.mu.Unlock()
	return append([]string{}, s.Order[kind]...)
}

func (s *RecStore) pre(ctx context.Context, method string, req fosite.Requester, keys ...string) (*StoreEv, error) {
	ev := &StoreEv{Proc: procOf(ctx), Method: method, Keys: keys}
	if req != nil {
		ev.RID = req.GetID()
		ev.Form = url.Values{}
		for k, v := range req.GetRequestForm() {
			ev.Form[k] = append([]string{}, v...)
		}
	}
	var err error
	if s.Hook != nil {
		err = s.Hook(ctx, ev)
	}
	s.mu.Lock()
	s.seq++
	ev.Seq = s.seq
	if err != nil {
		ev.Fault = err.Error()
	}
	if s.Keep {
		s.Log = append(s.Log, *ev)
	}
	s.mu.Unlock()
	return ev, err
}

func (s *RecStore) TakeLog() []StoreEv {
	s.mu.Lock()
	defer s.mu.Unlock()
	l := s.Log
	s.Log = nil
	return l
}

func (s *RecStore) GetClient(ctx context.Context, id string) (fosite.Client, error) {
	if _, err := s.pre(ctx, "GetClient", nil, id); err != nil {
		return nil, err
	}
	return s.MemoryStore.GetClient(ctx, id)
}
func (s *RecStore) ClientAssertionJWTValid(ctx context.Context, jti string) error {
	if _, err := s.pre(ctx, "ClientAssertionJWTValid", nil, jti); err != nil {
		return err
	}
	return s.MemoryStore.ClientAssertionJWTValid(ctx, jti)
}
func (s *RecStore) SetClientAssertionJWT(ctx context.Context, jti string, exp time.Time) error {
	if _, err := s.pre(ctx, "SetClientAssertionJWT", nil, jti); err != nil {
		return err
	}
	return s.MemoryStore.SetClientAssertionJWT(ctx, jti, exp)
}
func (s *RecStore) CreateOpenIDConnectSession(ctx context.Context, code string, r fosite.Requester) error {
	if _, err := s.pre(ctx, "CreateOpenIDConnectSession", r, code); err != nil {
		return err
	}
	return s.MemoryStore.CreateOpenIDConnectSession(ctx, code, cpAny(s.Copy, r))
}
func (s *RecStore) GetOpenIDConnectSession(ctx context.Context, code string, r fosite.Requester) (fosite.Requester, error) {
	if _, err := s.pre(ctx, "GetOpenIDConnectSession", nil, code); err != nil {
		return nil, err
	}
	out, err := s.MemoryStore.GetOpenIDConnectSession(ctx, code, r)
	out = cpAny(s.Copy, out)
	s.rehydrate(out)
	return out, err
}
func (s *RecStore) DeleteOpenIDConnectSession(ctx context.Context, code string) error {
	if _, err := s.pre(ctx, "DeleteOpenIDConnectSession", nil, code); err != nil {
		return err
	}
	return s.MemoryStore.DeleteOpenIDConnectSession(ctx, code)
}
func (s *RecStore) CreateAuthorizeCodeSession(ctx context.Context, code string, r fosite.Requester) error {
	if _, err := s.pre(ctx, "CreateAuthorizeCodeSession", r, code); err != nil {
		return err
	}
	if err := s.MemoryStore.CreateAuthorizeCodeSession(ctx, code, cpAny(s.Copy, r)); err != nil {
		return err
	}
	s.created("code", code)
	return nil
}
func (s *RecStore) GetAuthorizeCodeSession(ctx context.Context, code string, sess fosite.Session) (fosite.Requester, error) {
	if _, err := s.pre(ctx, "GetAuthorizeCodeSession", nil, code); err != nil {
		return nil, err
	}
	out, err := s.MemoryStore.GetAuthorizeCodeSession(ctx, code, sess)
	out = cpAny(s.Copy, out)
	s.rehydrate(out)
	return out, err
}
func (s *RecStore) InvalidateAuthorizeCodeSession(ctx context.Context, code string) error {
	if _, err := s.pre(ctx, "InvalidateAuthorizeCodeSession", nil, code); err != nil {
		return err
	}
	return s.MemoryStore.InvalidateAuthorizeCodeSession(ctx, code)
}
func (s *RecStore) CreatePKCERequestSession(ctx context.Context, code string, r fosite.Requester) error {
	if _, err := s.pre(ctx, "CreatePKCERequestSession", r, code); err != nil {
		return err
	}
	return s.MemoryStore.CreatePKCERequestSession(ctx, code, cpAny(s.Copy, r))
}
func (s *RecStore) GetPKCERequestSession(ctx context.Context, code string, sess fosite.Session) (fosite.Requester, error) {
	if _, err := s.pre(ctx, "GetPKCERequestSession", nil, code); err != nil {
		return nil, err
	}
	out, err := s.MemoryStore.GetPKCERequestSession(ctx, code, sess)
	out = cpAny(s.Copy, out)
	s.rehydrate(out)
	return out, err
}
func (s *RecStore) DeletePKCERequestSession(ctx context.Context, code string) error {
	if _, err := s.pre(ctx, "DeletePKCERequestSession", nil, code); err != nil {
		return err
	}
	return s.MemoryStore.DeletePKCERequestSession(ctx, code)
}
func (s *RecStore) CreateAccessTokenSession(ctx context.Context, sig string, r fosite.Requester) error {
	if _, err := s.pre(ctx, "CreateAccessTokenSession", r, sig); err != nil {
		return err
	}
	if err := s.MemoryStore.CreateAccessTokenSession(ctx, sig, cpAny(s.Copy, r)); err != nil {
		return err
	}
	s.created("at", sig)
	return nil
}
func (s *RecStore) GetAccessTokenSession(ctx context.Context, sig string, sess fosite.Session) (fosite.Requester, error) {
	if _, err := s.pre(ctx, "GetAccessTokenSession", nil, sig); err != nil {
		return nil, err
	}
	out, err := s.MemoryStore.GetAccessTokenSession(ctx, sig, sess)
	out = cpAny(s.Copy, out)
	s.rehydrate(out)
	return out, err
}
func (s *RecStore) DeleteAccessTokenSession(ctx context.Context, sig string) error {
	if _, err := s.pre(ctx, "DeleteAccessTokenSession", nil, sig); err != nil {
		return err
	}
	return s.MemoryStore.DeleteAccessTokenSession(ctx, sig)
}
func (s *RecStore) CreateRefreshTokenSession(ctx context.Context, sig, atSig string, r fosite.Requester) error {
	if _, err := s.pre(ctx, "CreateRefreshTokenSession", r, sig, atSig); err != nil {
		return err
	}
	if err := s.MemoryStore.CreateRefreshTokenSession(ctx, sig, atSig, cpAny(s.Copy, r)); err != nil {
		return err
	}
	s.created("rt", sig)
	return nil
}
func (s *RecStore) GetRefreshTokenSession(ctx context.Context, sig string, sess fosite.Session) (fosite.Requester, error) {
	if _, err := s.pre(ctx, "GetRefreshTokenSession", nil, sig); err != nil {
		if errors.Is(err, fosite.ErrInactiveToken) {
			// contract: ErrInactiveToken comes with the stored request
			if r, e2 := s.MemoryStore.GetRefreshTokenSession(ctx, sig, sess); r != nil && (e2 == nil || errors.Is(e2, fosite.ErrInactiveToken)) {
				return r, err
			}
			return nil, fosite.ErrNotFound
		}
		return nil, err
	}
	out, err := s.MemoryStore.GetRefreshTokenSession(ctx, sig, sess)
	out = cpAny(s.Copy, out)
	s.rehydrate(out)
	return out, err
}
func (s *RecStore) DeleteRefreshTokenSession(ctx context.Context, sig string) error {
	if _, err := s.pre(ctx, "DeleteRefreshTokenSession", nil, sig); err != nil {
		return err
	}
	return s.MemoryStore.DeleteRefreshTokenSession(ctx, sig)
}
func (s *RecStore) RotateRefreshToken(ctx context.Context, rid, sig string) error {
	if _, err := s.pre(ctx, "RotateRefreshToken", nil, sig); err != nil {
		return err
	}
	return s.MemoryStore.RotateRefreshToken(ctx, rid, sig)
}
func (s *RecStore) RevokeRefreshToken(ctx context.Context, rid string) error {
	if _, err := s.pre(ctx, "RevokeRefreshToken", nil); err != nil {
		return err
	}
	return s.MemoryStore.RevokeRefreshToken(ctx, rid)
}
func (s *RecStore) RevokeAccessToken(ctx context.Context, rid string) error {
	if _, err := s.pre(ctx, "RevokeAccessToken", nil); err != nil {
		return err
	}
	return s.MemoryStore.RevokeAccessToken(ctx, rid)
}
func (s *RecStore) Authenticate(ctx context.Context, name, secret string) (string, error) {
	if _, err := s.pre(ctx, "Authenticate", nil); err != nil {
		return "", err
	}
	return s.MemoryStore.Authenticate(ctx, name, secret)
}
func (s *RecStore) GetPublicKey(ctx context.Context, iss, sub, kid string) (*jose.JSONWebKey, error) {
	if _, err := s.pre(ctx, "GetPublicKey", nil); err != nil {
		return nil, err
	}
	return s.MemoryStore.GetPublicKey(ctx, iss, sub, kid)
}
func (s *RecStore) GetPublicKeys(ctx context.Context, iss, sub string) (*jose.JSONWebKeySet, error) {
	if _, err := s.pre(ctx, "GetPublicKeys", nil); err != nil {
		return nil, err
	}
	return s.MemoryStore.GetPublicKeys(ctx, iss, sub)
}
func (s *RecStore) GetPublicKeyScopes(ctx context.Context, iss, sub, kid string) ([]string, error) {
	if _, err := s.pre(ctx, "GetPublicKeyScopes", nil); err != nil {
		return nil, err
	}
	return s.MemoryStore.GetPublicKeyScopes(ctx, iss, sub, kid)
}
func (s *RecStore) IsJWTUsed(ctx context.Context, jti string) (bool, error) {
	if _, err := s.pre(ctx, "IsJWTUsed", nil, jti); err != nil {
		return false, err
	}
	return s.MemoryStore.IsJWTUsed(ctx, jti)
}
func (s *RecStore) MarkJWTUsedForTime(ctx context.Context, jti string, exp time.Time) error {
	if _, err := s.pre(ctx, "MarkJWTUsedForTime", nil, jti); err != nil {
		return err
	}
	return s.MemoryStore.MarkJWTUsedForTime(ctx, jti, exp)
}

// NonceManager of handler/verifiable (the reference store has none): nonces are remembered per access token.
func (s *RecStore) NewNonce(ctx context.Context, accessToken string, expiresAt time.Time) (string, error) {
	if _, err := s.pre(ctx, "NewNonce", nil, accessToken); err != nil {
		return "", err
	}
	s.mu.Lock()
	defer s.mu.Unlock()
	if s.nonces == nil {
		s.nonces = map[string]nonceRow{}
	}
	n := fmt.Sprintf("nonce-%d", len(s.nonces)+1)
	s.nonces[n] = nonceRow{at: accessToken, exp: expiresAt}
	return n, nil
}
func (s *RecStore) IsNonceValid(ctx context.Context, accessToken string, nonce string) error {
	if _, err := s.pre(ctx, "IsNonceValid", nil, accessToken, nonce); err != nil {
		return err
	}
	s.mu.Lock()
	defer s.mu.Unlock()
	if r, ok := s.nonces[nonce]; !ok || r.at != accessToken || r.exp.Before(time.Now()) {
		return fosite.ErrNotFound
	}
	return nil
}

type nonceRow struct {
	at  string
	exp time.Time
}

func (s *RecStore) CreatePARSession(ctx context.Context, uri string, r fosite.AuthorizeRequester) error {
	if _, err := s.pre(ctx, "CreatePARSession", r, uri); err != nil {
		return err
	}
	if err := s.MemoryStore.CreatePARSession(ctx, uri, cpAny(s.Copy, r)); err != nil {
		return err
	}
	s.created("par", uri)
	return nil
}
func (s *RecStore) GetPARSession(ctx context.Context, uri string) (fosite.AuthorizeRequester, error) {
	if _, err := s.pre(ctx, "GetPARSession", nil, uri); err != nil {
		return nil, err
	}
	out, err := s.MemoryStore.GetPARSession(ctx, uri)
	out = cpAny(s.Copy, out)
	s.rehydrate(out)
	return out, err
}
func (s *RecStore) DeletePARSession(ctx context.Context, uri string) error {
	if _, err := s.pre(ctx, "DeletePARSession", nil, uri); err != nil {
		return err
	}
	return s.MemoryStore.DeletePARSession(ctx, uri)
}
func (s *RecStore) CreateDeviceAuthSession(ctx context.Context, dsig, usig string, r fosite.DeviceRequester) error {
	if _, err := s.pre(ctx, "CreateDeviceAuthSession", r, dsig, usig); err != nil {
		return err
	}
	if err := s.MemoryStore.CreateDeviceAuthSession(ctx, dsig, usig, cpAny(s.Copy, r)); err != nil {
		return err
	}
	s.created("dev", dsig)
	return nil
}
func (s *RecStore) GetDeviceCodeSession(ctx context.Context, sig string, sess fosite.Session) (fosite.DeviceRequester, error) {
	if _, err := s.pre(ctx, "GetDeviceCodeSession", nil, sig); err != nil {
		return nil, err
	}
	out, err := s.MemoryStore.GetDeviceCodeSession(ctx, sig, sess)
	out = cpAny(s.Copy, out)
	s.rehydrate(out)
	return out, err
}
func (s *RecStore) InvalidateDeviceCodeSession(ctx context.Context, sig string) error {
	if _, err := s.pre(ctx, "InvalidateDeviceCodeSession", nil, sig); err != nil {
		return err
	}
	return s.MemoryStore.InvalidateDeviceCodeSession(ctx, sig)
}

// ContractDeviceStore follows the documented contract of DeviceAuthStorage: an
// invalidated device code is remembered and GetDeviceCodeSession returns the request
// together with ErrInvalidatedDeviceCode (the reference store deletes the row instead).
type ContractDeviceStore struct {
	*RecStore
	imu         sync.Mutex
	invalidated map[string]fosite.DeviceRequester
}

func (s *ContractDeviceStore) InvalidateDeviceCodeSession(ctx context.Context, sig string) error {
	if _, err := s.pre(ctx, "InvalidateDeviceCodeSession", nil, sig); err != nil {
		return err
	}
	r, err := s.MemoryStore.GetDeviceCodeSession(ctx, sig, nil)
	if err != nil {
		return err
	}
	s.imu.Lock()
	s.invalidated[sig] = r
	s.imu.Unlock()
	return s.MemoryStore.InvalidateDeviceCodeSession(ctx, sig)
}
func (s *ContractDeviceStore) GetDeviceCodeSession(ctx context.Context, sig string, sess fosite.Session) (fosite.DeviceRequester, error) {
	if _, err := s.pre(ctx, "GetDeviceCodeSession", nil, sig); err != nil {
		return nil, err
	}
	s.imu.Lock()
	r, ok := s.invalidated[sig]
	s.imu.Unlock()
	if ok {
		return r, fosite.ErrInvalidatedDeviceCode
	}
	return s.MemoryStore.GetDeviceCodeSession(ctx, sig, sess)
}

// TxStore adds storage.Transactional with real snapshot/rollback of every table of the
// reference store (a store "with real rollback", as C18 asks for).
type TxStore struct {
	*RecStore
	tmu    sync.Mutex
	snap   *storage.MemoryStore
	ordLen map[string]int
	TxLog  []string
}

type txKeyT struct{}

func (s *TxStore) BeginTX(ctx context.Context) (context.Context, error) {
	if _, err := s.pre(ctx, "BeginTX", nil); err != nil {
		s.logTx("begin_fail")
		return ctx, err
	}
	s.tmu.Lock()
	defer s.tmu.Unlock()
	s.snap = snapshot(s.MemoryStore)
	s.ordLen = map[string]int{}
	s.RecStore.mu.Lock()
	for k, v := range s.RecStore.Order {
		s.ordLen[k] = len(v)
	}
	s.RecStore.mu.Unlock()
	s.TxLog = append(s.TxLog, "begin")
	return context.WithValue(ctx, txKeyT{}, true), nil
}
func (s *TxStore) logTx(e string) {
	s.tmu.Lock()
	s.TxLog = append(s.TxLog, e)
	s.tmu.Unlock()
}

// The transaction travels in the context BeginTX returned (storage.Transactional: "the context
// returned by BeginTX must be propagated"): a commit or rollback called with any other context
// finds no transaction, does nothing and says so.
var errNoTxInContext = errors.New("no transaction in this context")

func (s *TxStore) Commit(ctx context.Context) error {
	if ctx.Value(txKeyT{}) == nil {
		s.logTx("commit_outside_tx")
		return errNoTxInContext
	}
	if _, err := s.pre(ctx, "Commit", nil); err != nil {
		s.logTx("commit_fail")
		return err
	}
	s.tmu.Lock()
	defer s.tmu.Unlock()
	s.snap = nil
	s.TxLog = append(s.TxLog, "commit")
	return nil
}
func (s *TxStore) Rollback(ctx context.Context) error {
	if ctx.Value(txKeyT{}) == nil {
		s.logTx("rollback_outside_tx")
		return errNoTxInContext
	}
	_, err := s.pre(ctx, "Rollback", nil)
	s.tmu.Lock()
	defer s.tmu.Unlock()
	// A failing rollback call still aborts the transaction in any real database (the
	// connection is dropped); the snapshot is restored either way.
	if s.snap != nil {
		restore(s.MemoryStore, s.snap)
		s.snap = nil
		s.RecStore.mu.Lock()
		for k := range s.RecStore.Order { // rows created inside the aborted transaction never existed
			if n, ok := s.ordLen[k]; ok && n < len(s.RecStore.Order[k]) {
				s.RecStore.Order[k] = s.RecStore.Order[k][:n]
			} else if !ok {
				s.RecStore.Order[k] = nil
			}
		}
		s.RecStore.mu.Unlock()
	}
	if err != nil {
		s.TxLog = append(s.TxLog, "rollback_fail")
		return err
	}
	s.TxLog = append(s.TxLog, "rollback")
	return nil
}
func (s *TxStore) TakeTxLog() []string {
	s.tmu.Lock()
	defer s.tmu.Unlock()
	l := s.TxLog
	s.TxLog = nil
	return l
}

func snapshot(m *storage.MemoryStore) *storage.MemoryStore {
	return &storage.MemoryStore{
		AuthorizeCodes:         maps.Clone(m.AuthorizeCodes),
		IDSessions:             maps.Clone(m.IDSessions),
		AccessTokens:           maps.Clone(m.AccessTokens),
		RefreshTokens:          maps.Clone(m.RefreshTokens),
		DeviceAuths:            maps.Clone(m.DeviceAuths),
		PKCES:                  maps.Clone(m.PKCES),
		BlacklistedJTIs:        maps.Clone(m.BlacklistedJTIs),
		AccessTokenRequestIDs:  maps.Clone(m.AccessTokenRequestIDs),
		RefreshTokenRequestIDs: maps.Clone(m.RefreshTokenRequestIDs),
		DeviceCodesRequestIDs:  maps.Clone(m.DeviceCodesRequestIDs),
		UserCodesRequestIDs:    maps.Clone(m.UserCodesRequestIDs),
		PARSessions:            maps.Clone(m.PARSessions),
	}
}
func restore(m, s *storage.MemoryStore) {
	m.AuthorizeCodes = s.AuthorizeCodes
	m.IDSessions = s.IDSessions
	m.AccessTokens = s.AccessTokens
	m.RefreshTokens = s.RefreshTokens
	m.DeviceAuths = s.DeviceAuths
	m.PKCES = s.PKCES
	m.BlacklistedJTIs = s.BlacklistedJTIs
	m.AccessTokenRequestIDs = s.AccessTokenRequestIDs
	m.RefreshTokenRequestIDs = s.RefreshTokenRequestIDs
	m.DeviceCodesRequestIDs = s.DeviceCodesRequestIDs
	m.UserCodesRequestIDs = s.UserCodesRequestIDs
	m.PARSessions = s.PARSessions
}
