package harness

import (
	"net/url"
	"strings"
	"time"

	"github.com/go-jose/go-jose/v3"
	josejwt "github.com/go-jose/go-jose/v3/jwt"
)

// BearerSpec describes a JWT-bearer authorization grant assertion (RFC 7523).
type BearerSpec struct {
	Iss, Sub, Kid  string
	Aud            []string // nil = the token URL
	Scopes         []string
	JTI            string
	Exp, Iat, Nbf  *time.Time // nil = sensible default (exp in 1 tick, iat now, no nbf)
	NoExp, NoIat   bool
	EmptyAssertion bool        // the form carries assertion=""
	Alg            string      // default RS256
	Key            interface{} // signing key; nil = the second RSA key of the fixture
	Raw            string      // if set: send this assertion verbatim
	Client         string      // authenticate as this client as well ("" = rely on CanSkipClientAuth)
}

func (w *World) signBearer(b BearerSpec) string {
	if b.Raw != "" {
		return b.Raw
	}
	_, _, k2 := Keys()
	key := b.Key
	if key == nil {
		key = k2
	}
	alg := jose.SignatureAlgorithm(b.Alg)
	if b.Alg == "" {
		alg = jose.RS256
	}
	opts := (&jose.SignerOptions{}).WithType("JWT")
	if b.Kid != "" {
		opts = opts.WithHeader("kid", b.Kid)
	}
	signer, err := jose.NewSigner(jose.SigningKey{Algorithm: alg, Key: key}, opts)
	if err != nil {
		panic(err)
	}
	now := time.Now()
	cl := josejwt.Claims{Issuer: b.Iss, Subject: b.Sub, ID: b.JTI}
	if b.Aud == nil {
		cl.Audience = josejwt.Audience{TokenURL}
	} else {
		cl.Audience = josejwt.Audience(b.Aud)
	}
	if !b.NoExp {
		e := now.Add(Tick)
		if b.Exp != nil {
			e = *b.Exp
		}
		cl.Expiry = josejwt.NewNumericDate(e)
	}
	if !b.NoIat {
		i := now
		if b.Iat != nil {
			i = *b.Iat
		}
		cl.IssuedAt = josejwt.NewNumericDate(i)
	}
	if b.Nbf != nil {
		cl.NotBefore = josejwt.NewNumericDate(*b.Nbf)
	}
	s, err := josejwt.Signed(signer).Claims(cl).CompactSerialize()
	if err != nil {
		panic(err)
	}
	return s
}

func (w *World) doJWTBearer(p int, b BearerSpec) Obs {
	r := postReq("/token")
	f := url.Values{}
	f.Set("grant_type", "urn:ietf:params:oauth:grant-type:jwt-bearer")
	f.Set("assertion", w.signBearer(b))
	if b.EmptyAssertion {
		f.Set("assertion", "")
	}
	if len(b.Scopes) > 0 {
		f.Set("scope", strings.Join(b.Scopes, " "))
	}
	if b.Client != "" {
		w.setAuth(r, f, b.Client, "ok")
	}
	finishPost(r, f)
	o, _, _ := w.tokenCall(p, r, false)
	return o
}
