package harness

import (
	"context"
	"crypto/sha256"
	"crypto/sha512"
	"encoding/json"
	"net/url"
	"strconv"
	"time"

	"github.com/go-jose/go-jose/v3"
	josejwt "github.com/go-jose/go-jose/v3/jwt"

	"github.com/ory/fosite"
	"github.com/ory/fosite/token/jwt"
)

func init() {
	tableRunners["c14"] = runC14
	bubbleKinds["c14"] = true
}

func leftHalfHash(bits int, s string) string {
	var sum []byte
	switch bits {
	case 384:
		h := sha512.Sum384([]byte(s))
		sum = h[:]
	case 512:
		h := sha512.Sum512([]byte(s))
		sum = h[:]
	default:
		h := sha256.Sum256([]byte(s))
		sum = h[:]
	}
	return rawB64.EncodeToString(sum[:len(sum)/2])
}

func publicOf(k interface{}) interface{} {
	switch t := k.(type) {
	case *jose.JSONWebKey:
		p := t.Public()
		return &p
	case interface{ Public() interface{} }:
		return t.Public()
	}
	rk, ek, _ := Keys()
	if k == interface{}(ek) {
		return &ek.PublicKey
	}
	return &rk.PublicKey
}

type c14Row struct {
	Tbl, Flow, Subject, Key, Preset, Alg, Prompt, Hint string
	Issuer, Iss                                        string // what the session says about the issuer; whose issuer the ID Token carries
	OpenID                                             bool   `json:"openid"`
	Issued                                             bool
	HashBits                                           int  `json:"hash_bits"`
	AtHash                                             bool `json:"at_hash"`
	CHash                                              bool `json:"c_hash"`
	Undet                                              bool
	SessionAud                                         bool `json:"session_aud"`
	MaxAge                                             int  `json:"max_age"`
	Offset                                             int
}

func runC14(rep *TReport, raw json.RawMessage) {
	var r c14Row
	if err := json.Unmarshal(raw, &r); err != nil {
		panic(err)
	}
	cfg := DefaultCfg()
	cfg.RScopes = []string{}
	cfg.LIDT = 3
	if r.Tbl == "A" {
		cfg.Key = r.Key
		if r.Key == "rsa" {
			cfg.Key = ""
		}
	}
	w := NewWorld(cfg)
	w.Rec.Keep = false
	time.Sleep(10 * Tick) // so that instants "before now" exist on the fake clock
	subject := Subject
	if r.Tbl == "A" {
		subject = r.Subject
	}
	now := time.Now().UTC()
	w.SessionFn = func() fosite.Session {
		s := NewSess(subject)
		s.Claims.Subject = subject
		s.Claims.RequestedAt = now
		s.Claims.AuthTime = now
		if r.Tbl == "B" {
			s.Claims.RequestedAt = now.Add(-4 * Tick)
			s.Claims.AuthTime = s.Claims.RequestedAt.Add(time.Duration(r.Offset) * Tick)
			if r.Offset == 99 { // the session does not know when the user authenticated
				s.Claims.AuthTime = time.Time{}
			}
		}
		if r.Tbl == "A" && r.Key != "rsa" && r.Key != "ec256" && r.Key != "jwk_es384_nohdr" {
			s.Headers.Extra = map[string]interface{}{"alg": r.Alg} // the application names the algorithm of its key
		}
		switch r.Issuer { // the ID Token carries the session's issuer; the configured one only when the session names none
		case "tenant":
			s.Claims.Issuer = TenantIssuer
		case "unset":
			s.Claims.Issuer = ""
		}
		if r.SessionAud {
			// ... and custom claims that are named like registered ones (an identity broker copying an upstream ID token):
			// they never stand in for the claims this server computes
			s.Claims.Extra = map[string]interface{}{"nonce": "nonce-from-session-extra", "at_hash": "at-hash-from-extra", "c_hash": "c-hash-from-extra", "custom": "kept"}
			s.Claims.Audience = []string{"https://api.example.org"}
		}
		switch r.Preset {
		case "future":
			s.Claims.ExpiresAt = now.Add(1 * Tick)
		case "past":
			s.Claims.ExpiresAt = now.Add(-1 * Tick)
		}
		return s
	}
	scopes := []string{"offline", "a"}
	if r.Tbl == "B" || r.OpenID {
		scopes = []string{"openid", "offline", "a"}
	}
	w.ExtraAuthz = url.Values{}
	if r.Tbl == "B" {
		if r.MaxAge > 0 {
			w.ExtraAuthz.Set("max_age", strconv.Itoa(int(time.Duration(r.MaxAge)*Tick/time.Second)))
		}
		if r.Prompt != "" {
			w.ExtraAuthz.Set("prompt", r.Prompt)
		}
		if r.Hint != "none" {
			w.ExtraAuthz.Set("id_token_hint", w.idTokenHint(r.Hint))
		}
	}
	nIDT := len(w.IDTs)
	var o Obs
	code, at := "", ""
	authz := func(rt string) Obs {
		return w.Exec(1, Op{Op: "authorize", Client: "A", RType: rt, Scopes: scopes, Grant: scopes, Redir: "sent", Pkce: "none"})
	}
	switch r.Flow {
	case "code":
		o = authz("code")
		if o.Res == "ok" {
			o = w.Exec(1, Op{Op: "redeem", Client: "A", Auth: "ok", Code: 1, Redir: "same", Ver: "none"})
			at = w.tok("at", o.New["at"])
		}
	case "implicit_idt":
		o = authz("idt")
	case "implicit_idt_token":
		o = authz("idt_token")
		at = w.tok("at", o.New["at"])
	case "hybrid_code_idt":
		o = authz("code_idt")
		code = w.tok("code", o.New["code"])
	case "hybrid_code_idt_token":
		o = authz("code_idt_token")
		code, at = w.tok("code", o.New["code"]), w.tok("at", o.New["at"])
	case "refresh", "refresh_hybrid":
		if r.Flow == "refresh_hybrid" {
			o = authz("code_idt_token")
		} else {
			o = authz("code")
		}
		if o.Res == "ok" {
			o = w.Exec(1, Op{Op: "redeem", Client: "A", Auth: "ok", Code: 1, Redir: "same", Ver: "none"})
		}
		if o.Res == "ok" {
			nIDT = len(w.IDTs)
			o = w.Exec(1, Op{Op: "refresh", Client: "A", Auth: "ok", Tok: o.New["rt"]})
			at = w.tok("at", o.New["at"])
		}
	case "device":
		o = w.Exec(1, Op{Op: "devstart", Client: "A", Auth: "ok", Scopes: scopes, Grant: scopes})
		w.Exec(1, Op{Op: "devdecide", Dev: 1, Dec: "accept"})
		if o.Res == "ok" {
			o = w.Exec(1, Op{Op: "devpoll", Client: "A", Auth: "ok", Dev: 1})
			at = w.tok("at", o.New["at"])
		}
	}
	got := len(w.IDTs) > nIDT
	rep.cmp(raw, "id_token_issued", r.Issued, got, false)
	if !got || !r.Issued {
		return
	}
	idt := w.IDTs[len(w.IDTs)-1]
	tok, err := josejwt.ParseSigned(idt)
	if err != nil {
		rep.cmp(raw, "id_token_parses", "ok", err.Error(), false)
		return
	}
	claims := map[string]interface{}{}
	if err := tok.Claims(publicOf(w.SignKey), &claims); err != nil {
		rep.cmp(raw, "verifies_under_server_key", "ok", err.Error(), false)
		return
	}
	if r.Tbl == "A" {
		rep.cmp(raw, "alg_header", r.Alg, tok.Headers[0].Algorithm, false)
	}
	auds := []string{}
	switch a := claims["aud"].(type) {
	case string:
		auds = []string{a}
	case []interface{}:
		for _, x := range a {
			auds = append(auds, x.(string))
		}
	}
	hasAud := false
	for _, a := range auds {
		hasAud = hasAud || a == "A"
	}
	rep.cmp(raw, "aud_names_client", true, hasAud, false)
	rep.cmp(raw, "sub", subject, claims["sub"], false)
	wantIss := Issuer
	if r.Iss == "tenant" {
		wantIss = TenantIssuer
	}
	rep.cmp(raw, "iss", wantIss, claims["iss"], false)
	switch r.Flow {
	case "device": // the device authorization request has no nonce parameter
		rep.cmp(raw, "nonce_absent", nil, claims["nonce"], false)
	case "refresh", "refresh_hybrid": // OIDC Core 12.2: absent, or the original value
		if claims["nonce"] != nil {
			rep.cmp(raw, "nonce", GoodNonce, claims["nonce"], false)
		}
	default:
		rep.cmp(raw, "nonce", GoodNonce, claims["nonce"], false)
	}
	exp, _ := claims["exp"].(float64)
	expT := time.Unix(int64(exp), 0)
	if r.Preset == "future" && r.Flow != "refresh" && r.Flow != "refresh_hybrid" { // a refresh mints a new ID token with a new lifetime
		rep.cmp(raw, "exp_is_preset", now.Add(1*Tick).Unix(), int64(exp), false)
	} else {
		rep.cmp(raw, "exp_in_future_within_lifetime", true, expT.After(time.Now()) && !expT.After(time.Now().Add(time.Duration(cfg.LIDT)*Tick)), false)
	}
	bits := r.HashBits
	if r.Tbl == "B" {
		bits = 256
	}
	if r.Tbl == "A" {
		if r.AtHash {
			rep.cmp(raw, "at_hash", leftHalfHash(bits, at), claims["at_hash"], r.Undet)
		} else {
			rep.cmp(raw, "at_hash_absent", nil, claims["at_hash"], false)
		}
		if r.CHash {
			rep.cmp(raw, "c_hash", leftHalfHash(bits, code), claims["c_hash"], r.Undet)
		} else {
			rep.cmp(raw, "c_hash_absent", nil, claims["c_hash"], false)
		}
	}
}

// idTokenHint signs an ID token for id_token_hint with the server key.
func (w *World) idTokenHint(kind string) string {
	sub := Subject
	exp := time.Now().Add(Tick)
	var key interface{} = w.SignKey
	switch kind {
	case "other":
		sub = "somebody-else"
	case "same_expired":
		exp = time.Now().Add(-2 * Tick)
	case "other_expired":
		sub = "somebody-else"
		exp = time.Now().Add(-2 * Tick)
	case "foreign_key_expired":
		key = unregisteredKey()
		exp = time.Now().Add(-2 * Tick)
	case "garbage":
		return "not.an.id-token"
	case "foreign_key":
		key = unregisteredKey()
	}
	claims := jwt.MapClaims{"sub": sub, "iss": Issuer, "aud": []string{"A"}, "exp": exp.Unix(), "iat": time.Now().Add(-3 * Tick).Unix()}
	if kind == "no_sub" {
		delete(claims, "sub")
	}
	signer := &jwt.DefaultSigner{GetPrivateKey: func(_ context.Context) (interface{}, error) { return key, nil }}
	t, _, err := signer.Generate(w.ctx(0), claims, jwt.NewHeaders())
	if err != nil {
		panic(err)
	}
	return t
}
