package harness

import (
	"bytes"
	"encoding/json"
	"fmt"
	"os"
	"strconv"
	"strings"
	"testing"
	"testing/synctest"
)

// TMismatch is one table row on which the implementation disagrees with the specification.
type TMismatch struct {
	Row   json.RawMessage `json:"row"`
	Field string          `json:"field"`
	Exp   interface{}     `json:"exp"`
	Obs   interface{}     `json:"obs"`
	Undet bool            `json:"undetermined"` // the documentation does not fix the answer: observation only
}

type TReport struct {
	Kind       string      `json:"kind"`
	Rows       int         `json:"rows"`
	Executed   int         `json:"executed"`
	Checks     int         `json:"checks"` // individual comparisons made
	Mismatches []TMismatch `json:"mismatches"`
	Notes      []string    `json:"notes"`
}

// TestTable executes a decision table produced by TLC ($VERIF_TABLE, JSON array) on the real
// code. $VERIF_TABLE_KIND selects the runner, $VERIF_SHARD = "i/n" every n-th row.
func TestTable(t *testing.T) {
	path, kind, out := os.Getenv("VERIF_TABLE"), os.Getenv("VERIF_TABLE_KIND"), os.Getenv("VERIF_OUT")
	if path == "" || kind == "" || out == "" {
		t.Skip("VERIF_TABLE / VERIF_TABLE_KIND / VERIF_OUT not set")
	}
	si, sn := 0, 1
	if s := os.Getenv("VERIF_SHARD"); s != "" {
		p := strings.Split(s, "/")
		si, _ = strconv.Atoi(p[0])
		sn, _ = strconv.Atoi(p[1])
	}
	data, err := os.ReadFile(path)
	if err != nil {
		t.Fatal(err)
	}
	var rows []json.RawMessage
	if err := json.Unmarshal(data, &rows); err != nil {
		t.Fatal(err)
	}
	Keys()
	rep := &TReport{Kind: kind, Rows: len(rows), Mismatches: []TMismatch{}, Notes: []string{}}
	run, ok := tableRunners[kind]
	if !ok {
		t.Fatalf("unknown table kind %q", kind)
	}
	for i, r := range rows {
		if i%sn != si {
			continue
		}
		func() {
			defer func() {
				if p := recover(); p != nil {
					rep.Mismatches = append(rep.Mismatches, TMismatch{Row: r, Field: "PANIC", Exp: "no panic", Obs: fmt.Sprint(p)})
				}
			}()
			// rows that use the real DefaultJWKSFetcherStrategy run on the wall clock: it starts cache goroutines that
			// cannot be stopped from outside, which a synctest bubble does not tolerate; nothing in them depends on the clock
			var compact bytes.Buffer
			_ = json.Compact(&compact, r)
			if bubbleKinds[kind] && !bytes.Contains(compact.Bytes(), []byte(`"keysrc":"uri`)) {
				synctest.Test(t, func(t *testing.T) { run(rep, r) })
			} else {
				run(rep, r)
			}
		}()
		rep.Executed++
	}
	b, _ := json.Marshal(rep)
	if err := os.WriteFile(out, b, 0o644); err != nil {
		t.Fatal(err)
	}
	fmt.Printf("TABLE kind=%s rows=%d executed=%d mismatches=%d\n", kind, len(rows), rep.Executed, len(rep.Mismatches))
}

var tableRunners = map[string]func(rep *TReport, row json.RawMessage){}
var bubbleKinds = map[string]bool{}

func (rep *TReport) cmp(row json.RawMessage, field string, exp, obs interface{}, undet bool) {
	rep.Checks++
	if fmt.Sprint(exp) != fmt.Sprint(obs) {
		rep.Mismatches = append(rep.Mismatches, TMismatch{Row: row, Field: field, Exp: exp, Obs: obs, Undet: undet})
	}
}
