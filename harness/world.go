// Package harness binds the TLA+ specification under /verif/spec to the real
// ory/fosite code in /repo: it executes abstract operation histories (produced by TLC
// or by the built-in generators) on a real provider + reference store and logs, for every
// operation, the observed result, the projection of the store and an introspection probe
// of every token ever handed out. The log is validated by TLC against TraceGrants.tla.
package harness

import (
	"context"
	"crypto/ecdsa"
	"crypto/elliptic"
	"crypto/rand"
	"crypto/rsa"
	"net/url"
	"os"
	"sort"
	"strings"
	"sync"
	"time"

	"github.com/go-jose/go-jose/v3"
	"github.com/mohae/deepcopy"

	"github.com/ory/fosite"
	"github.com/ory/fosite/compose"
	"github.com/ory/fosite/handler/oauth2"
	"github.com/ory/fosite/handler/openid"
	"github.com/ory/fosite/handler/rfc8628"
	"github.com/ory/fosite/storage"
	"github.com/ory/fosite/token/jwt"
)

// Cfg is the abstract configuration of one history. It is part of every trace (the
// "reset" event) and is bound to the variable cfg of the specification.
type Cfg struct {
	AT          string   `json:"at"`      // access token strategy: "hmac" | "jwt"
	RScopes     []string `json:"rscopes"` // configured refresh-token scopes ([] = none configured)
	PkceEnforce bool     `json:"pkce_all"`
	PkcePublic  bool     `json:"pkce_pub"`
	PkcePlain   bool     `json:"pkce_plain"`
	ParEnforced bool     `json:"par_enf"`
	NoRTIntro   bool     `json:"no_rt_intro"` // DisableRefreshTokenValidation
	LCode       int      `json:"l_code"`      // lifetimes in ticks
	LAT         int      `json:"l_at"`
	LRT         int      `json:"l_rt"` // -1 = refresh tokens never expire
	LDev        int      `json:"l_dev"`
	LPar        int      `json:"l_par"`
	LIDT        int      `json:"l_idt"`
	Store       string   `json:"store"`         // "mem" (reference store) | "contract" | "tx" | "copy"
	Key         string   `json:"key,omitempty"` // ID-token signing key: "" = RSA; "ec256", "jwk_es384", "jwk_es512", "jwk_rs384"
	// the application's session type does not remember the expiry of access tokens: the strategy must fall back to
	// requested_at + configured lifetime, with the same outcome (lifetime source "server default" of C07). Authorization
	// codes are left out on purpose, see DESIGN.md section 7, observation F12.
	SessNoExp bool `json:"sess_noexp"`
	// compose the verifiable-credentials handler (handler/verifiable): a token response whose grant contains openid and
	// userinfo_credential_draft_00 carries a nonce bound to the access token by the store's NonceManager
	VC bool `json:"vc,omitempty"`
}

func DefaultCfg() Cfg {
	return Cfg{AT: "hmac", RScopes: []string{"offline"}, PkcePlain: false, LCode: 2, LAT: 3, LRT: 6, LDev: 2, LPar: 2, LIDT: 3, Store: "mem"}
}

// Tick is the real duration of one abstract clock tick. Every configured lifetime is a
// whole number of ticks and every operation executes in zero (fake) time, so the
// specification's integer clock and the synctest clock agree exactly.
const Tick = 10 * time.Minute

const (
	Issuer       = "https://issuer.example"
	TenantIssuer = "https://tenant-a.issuer.example" // an issuer a session names for itself, different from the configured one
	TokenURL     = "https://issuer.example/token"
	Subject      = "peter"
	Password     = "secret-pw"
	GoodState    = "state-0123456789"
	GoodNonce    = "nonce-0123456789"
)

var (
	keyOnce sync.Once
	rsaKey  *rsa.PrivateKey
	ecKey   *ecdsa.PrivateKey
	rsaKey2 *rsa.PrivateKey
)

// Keys are generated once per process, outside any synctest bubble (they are plain data).
func Keys() (*rsa.PrivateKey, *ecdsa.PrivateKey, *rsa.PrivateKey) {
	keyOnce.Do(func() {
		var err error
		if rsaKey, err = rsa.GenerateKey(rand.Reader, 2048); err != nil {
			panic(err)
		}
		if rsaKey2, err = rsa.GenerateKey(rand.Reader, 2048); err != nil {
			panic(err)
		}
		if ecKey, err = ecdsa.GenerateKey(elliptic.P256(), rand.Reader); err != nil {
			panic(err)
		}
	})
	return rsaKey, ecKey, rsaKey2
}

// Sess is the session type used by the harness. It satisfies openid.Session and
// oauth2.JWTSessionContainer so the same histories run under both access-token strategies.
type Sess struct {
	*openid.DefaultSession
	JWTClaims *jwt.JWTClaims
	JWTHeader *jwt.Headers
	NoExp     bool // see Cfg.SessNoExp
}

// SetExpiresAt forgets the expiry of access tokens when the session is of the forgetful kind.
func (s *Sess) SetExpiresAt(key fosite.TokenType, exp time.Time) {
	if s.NoExp && key == fosite.AccessToken {
		return
	}
	s.DefaultSession.SetExpiresAt(key, exp)
}

func NewSess(subject string) *Sess {
	return &Sess{
		DefaultSession: &openid.DefaultSession{
			Claims:  &jwt.IDTokenClaims{Subject: subject, Issuer: Issuer, RequestedAt: time.Now().UTC(), AuthTime: time.Now().UTC()},
			Headers: &jwt.Headers{},
			Subject: subject, Username: subject,
		},
		JWTClaims: &jwt.JWTClaims{Subject: subject, Issuer: Issuer, Extra: map[string]interface{}{}},
		JWTHeader: &jwt.Headers{Extra: map[string]interface{}{}},
	}
}

func (s *Sess) GetJWTClaims() jwt.JWTClaimsContainer {
	if s.JWTClaims == nil {
		s.JWTClaims = &jwt.JWTClaims{}
	}
	return s.JWTClaims
}
func (s *Sess) GetJWTHeader() *jwt.Headers {
	if s.JWTHeader == nil {
		s.JWTHeader = &jwt.Headers{}
	}
	return s.JWTHeader
}
func (s *Sess) Clone() fosite.Session {
	if s == nil {
		return nil
	}
	return deepcopy.Copy(s).(fosite.Session)
}
func (s *Sess) SetSubject(sub string) {
	s.DefaultSession.SetSubject(sub)
	if s.JWTClaims != nil {
		s.JWTClaims.Subject = sub
	}
	if s.DefaultSession.Claims != nil {
		s.DefaultSession.Claims.Subject = sub
	}
}

// ClientSecrets holds the cleartext secrets of the fixture clients.
var ClientSecrets = map[string]string{"A": "secret-of-A", "B": "secret-of-B", "P": ""}

var AllScopes = []string{"openid", "offline", "a", "b"}
var AllAud = []string{"https://api.a.example/", "https://api.b.example/"}
var RedirectOf = map[string]string{"A": "https://a.example/cb", "B": "https://b.example/cb", "P": "https://p.example/cb", "J": "https://j.example/cb"}

var allGrantTypes = []string{"authorization_code", "refresh_token", "implicit", "password", "client_credentials",
	"urn:ietf:params:oauth:grant-type:device_code", "urn:ietf:params:oauth:grant-type:jwt-bearer"}
var allResponseTypes = []string{"code", "token", "id_token", "code token", "code id_token", "id_token token", "code id_token token"}

// World is one provider + one store + the registry mapping abstract ids to real strings.
type World struct {
	Cfg      Cfg
	Config   *fosite.Config
	Mem      *storage.MemoryStore
	Store    interface{} // what the provider was composed over (Mem or a wrapper)
	Rec      *RecStore
	Provider fosite.OAuth2Provider
	T0       time.Time
	Hasher   fosite.Hasher

	Tok  map[string]map[string]string // kind -> row key (signature) -> the credential string handed out
	UCs  map[string]string            // device code signature -> user code
	IDTs []string

	SignKey      interface{}                         // the server's signing key (ID tokens, JWT access tokens)
	TokenSessFn  func(subject string) fosite.Session // session handed to NewAccessRequest (nil = w.sess(subject))
	assertionSeq int
	grantOnly    []string              // password grant: the scopes the application grants (nil = every requested one)
	SessionFn    func() fosite.Session // session handed to NewAuthorizeResponse / NewDeviceResponse (nil = NewSess(Subject))
	ExtraAuthz   url.Values            // additional authorization request parameters (prompt, max_age, ...)
	Assertions   []string              // client assertions the harness presented (secrets for C20)
	Verifier     map[int]string        // per code id: the PKCE verifier used at authorization
	PkceOf       map[int]string        // per code id: method used
	DevRID       map[int]string
	codeOwner    map[int]string
	DevOwner     map[int]string // device id -> client that started the flow
	mu           sync.Mutex
	authzCalls   int
}

// plainHasher stores client secrets as "plain:<secret>"; used in bulk history runs where
// bcrypt would dominate the run time. C10 runs the real BCrypt hasher.
type plainHasher struct{}

func (plainHasher) Compare(_ context.Context, hash, data []byte) error {
	if string(hash) == "plain:"+string(data) {
		return nil
	}
	return fosite.ErrRequestUnauthorized
}
func (plainHasher) Hash(_ context.Context, data []byte) ([]byte, error) {
	return []byte("plain:" + string(data)), nil
}

func newClient(id string, public bool) *fosite.DefaultClient {
	c := &fosite.DefaultClient{
		ID:            id,
		Public:        public,
		RedirectURIs:  []string{RedirectOf[id]},
		ResponseTypes: append([]string{}, allResponseTypes...),
		GrantTypes:    append([]string{}, allGrantTypes...),
		Scopes:        append([]string{}, AllScopes...),
		Audience:      append([]string{}, AllAud...),
	}
	if !public {
		c.Secret = []byte("plain:" + ClientSecrets[id])
	}
	return c
}

// NewWorld builds a fresh provider over a fresh reference store. Must be called inside
// the synctest bubble of the history (the provider reads time.Now()).
func NewWorld(cfg Cfg) *World {
	rk, _, _ := Keys()
	w := &World{Cfg: cfg, T0: time.Now(), Tok: map[string]map[string]string{"code": {}, "at": {}, "rt": {}, "dev": {}, "par": {}}, UCs: map[string]string{}, Verifier: map[int]string{}, PkceOf: map[int]string{}, DevRID: map[int]string{}, codeOwner: map[int]string{}, DevOwner: map[int]string{}}
	w.Mem = storage.NewMemoryStore()
	for _, id := range []string{"A", "B", "P"} {
		w.Mem.Clients[id] = newClient(id, id == "P")
	}
	w.Mem.Users[Subject] = storage.MemoryUserRelation{Username: Subject, Password: Password}
	{ // client J authenticates with private_key_jwt; issuer iss-1 may send JWT-bearer grants for sub-1
		_, _, k2 := Keys()
		j := newClient("J", false)
		j.RedirectURIs = []string{"https://j.example/cb"}
		w.Mem.Clients["J"] = &fosite.DefaultOpenIDConnectClient{DefaultClient: j, TokenEndpointAuthMethod: "private_key_jwt",
			TokenEndpointAuthSigningAlgorithm: "RS256",
			JSONWebKeys:                       &jose.JSONWebKeySet{Keys: []jose.JSONWebKey{{Key: &k2.PublicKey, KeyID: "kid-j", Use: "sig", Algorithm: "RS256"}}}}
		w.Mem.IssuerPublicKeys["iss-1"] = storage.IssuerPublicKeys{Issuer: "iss-1", KeysBySub: map[string]storage.SubjectPublicKeys{
			"sub-1": {Subject: "sub-1", Keys: map[string]storage.PublicKeyScopes{
				"kid-1": {Key: &jose.JSONWebKey{Key: &k2.PublicKey, Algorithm: "RS256", Use: "sig", KeyID: "kid-1"}, Scopes: []string{"a"}}}}}}
	}
	w.Hasher = plainHasher{}
	rtl := time.Duration(cfg.LRT) * Tick
	if cfg.LRT < 0 {
		rtl = -1
	}
	w.Config = &fosite.Config{
		GlobalSecret:                        []byte("global-secret-0123456789-0123456789-0123456789"),
		AccessTokenLifespan:                 time.Duration(cfg.LAT) * Tick,
		RefreshTokenLifespan:                rtl,
		AuthorizeCodeLifespan:               time.Duration(cfg.LCode) * Tick,
		IDTokenLifespan:                     time.Duration(cfg.LIDT) * Tick,
		DeviceAndUserCodeLifespan:           time.Duration(cfg.LDev) * Tick,
		PushedAuthorizeContextLifespan:      time.Duration(cfg.LPar) * Tick,
		DeviceAuthTokenPollingInterval:      -1,
		RefreshTokenScopes:                  append([]string{}, cfg.RScopes...),
		EnforcePKCE:                         cfg.PkceEnforce,
		EnforcePKCEForPublicClients:         cfg.PkcePublic,
		EnablePKCEPlainChallengeMethod:      cfg.PkcePlain,
		IsPushedAuthorizeEnforced:           cfg.ParEnforced,
		DisableRefreshTokenValidation:       cfg.NoRTIntro,
		ClientSecretsHasher:                 w.Hasher,
		ScopeStrategy:                       fosite.ExactScopeStrategy,
		AudienceMatchingStrategy:            fosite.DefaultAudienceMatchingStrategy,
		TokenURL:                            TokenURL,
		IDTokenIssuer:                       Issuer,
		AccessTokenIssuer:                   Issuer,
		SendDebugMessagesToClients:          true,
		GrantTypeJWTBearerCanSkipClientAuth: true,
		JWKSFetcherStrategy:                 noFetch{},
	}
	if cfg.RScopes == nil {
		w.Config.RefreshTokenScopes = []string{}
	}
	w.Rec = NewRecStore(w.Mem)
	if cfg.Store == "copy" || os.Getenv("VERIF_FORCE_COPY_STORE") != "" {
		w.Rec.Copy = true
	}
	switch cfg.Store {
	case "contract":
		w.Store = &ContractDeviceStore{RecStore: w.Rec, invalidated: map[string]fosite.DeviceRequester{}}
	case "tx":
		w.Store = &TxStore{RecStore: w.Rec}
	default:
		w.Store = w.Rec
	}
	w.SignKey = SigningKey(cfg.Key)
	keyGetter := func(context.Context) (interface{}, error) { return w.SignKey, nil }
	if cfg.AT == "jwt" || cfg.Key != "" || cfg.VC {
		hm := compose.NewOAuth2HMACStrategy(w.Config)
		strat := &compose.CommonStrategy{
			CoreStrategy:               coreStrategy(cfg, keyGetter, hm, w.Config),
			RFC8628CodeStrategy:        compose.NewDeviceStrategy(w.Config),
			OpenIDConnectTokenStrategy: compose.NewOpenIDConnectStrategy(keyGetter, w.Config),
			Signer:                     &jwt.DefaultSigner{GetPrivateKey: keyGetter},
		}
		factories := []compose.Factory{
			compose.OAuth2AuthorizeExplicitFactory,
			compose.OAuth2AuthorizeImplicitFactory,
			compose.OAuth2ClientCredentialsGrantFactory,
			compose.OAuth2RefreshTokenGrantFactory,
			compose.OAuth2ResourceOwnerPasswordCredentialsFactory,
			compose.RFC7523AssertionGrantFactory,
			compose.RFC8628DeviceFactory,
			compose.RFC8628DeviceAuthorizationTokenFactory,
			compose.OpenIDConnectExplicitFactory,
			compose.OpenIDConnectImplicitFactory,
			compose.OpenIDConnectHybridFactory,
			compose.OpenIDConnectRefreshFactory,
			compose.OpenIDConnectDeviceFactory,
			compose.OAuth2TokenIntrospectionFactory,
			compose.OAuth2TokenRevocationFactory,
			compose.OAuth2PKCEFactory,
			compose.PushedAuthorizeHandlerFactory,
		}
		if cfg.VC { // the verifiable-credentials nonce handler, after the handlers that mint the access token; the recording store is its NonceManager
			factories = append(factories, compose.OIDCUserinfoVerifiableCredentialFactory)
		}
		w.Provider = compose.Compose(w.Config, w.Store, strat, factories...)
	} else {
		w.Provider = compose.ComposeAllEnabled(w.Config, w.Store, rk)
	}
	return w
}

type noFetch struct{}

func (noFetch) Resolve(ctx context.Context, location string, ignoreCache bool) (*jose.JSONWebKeySet, error) {
	return nil, fosite.ErrServerError
}

// Now returns the abstract clock (ticks since the start of the history).
func (w *World) Now() int { return int(time.Since(w.T0) / Tick) }

func sigOf(token string) string {
	i := strings.LastIndex(token, ".")
	if i < 0 {
		return token
	}
	return token[i+1:]
}

func sortedCopy(a []string) []string {
	b := append([]string{}, a...)
	sort.Strings(b)
	return b
}

// DevStrategy returns the library's device/user code strategy for this world's config.
func (w *World) DevStrategy() *rfc8628.DefaultDeviceStrategy {
	return compose.NewDeviceStrategy(w.Config)
}

func coreStrategy(cfg Cfg, keyGetter func(context.Context) (interface{}, error), hm *oauth2.HMACSHAStrategy, config *fosite.Config) oauth2.CoreStrategy {
	if cfg.AT == "jwt" {
		return compose.NewOAuth2JWTStrategy(keyGetter, hm, config)
	}
	return hm
}

var (
	ecKeys   = map[string]*ecdsa.PrivateKey{}
	ecKeysMu sync.Mutex
)

// SigningKey returns the server signing key for a key kind of the C14 table.
func SigningKey(kind string) interface{} {
	rk, ek, rk2 := Keys()
	_ = rk2
	gen := func(name string, c elliptic.Curve) *ecdsa.PrivateKey {
		ecKeysMu.Lock()
		defer ecKeysMu.Unlock()
		if k, ok := ecKeys[name]; ok {
			return k
		}
		k, err := ecdsa.GenerateKey(c, rand.Reader)
		if err != nil {
			panic(err)
		}
		ecKeys[name] = k
		return k
	}
	switch kind {
	case "ec256":
		return ek
	case "jwk_es384", "jwk_es384_nohdr":
		return &jose.JSONWebKey{Key: gen("p384", elliptic.P384()), Algorithm: "ES384", Use: "sig", KeyID: "k384"}
	case "jwk_es512":
		return &jose.JSONWebKey{Key: gen("p521", elliptic.P521()), Algorithm: "ES512", Use: "sig", KeyID: "k512"}
	case "jwk_rs384":
		return &jose.JSONWebKey{Key: rk, Algorithm: "RS384", Use: "sig", KeyID: "krs384"}
	}
	return rk
}

func (w *World) session() fosite.Session {
	if w.SessionFn != nil {
		return w.SessionFn()
	}
	return w.sess(Subject)
}

// tokenSess builds the session an application hands to the token endpoint
func (w *World) tokenSess(subject string) fosite.Session {
	if w.TokenSessFn != nil {
		return w.TokenSessFn(subject)
	}
	return w.sess(subject)
}

// sess builds the session an application hands to the provider in this world
func (w *World) sess(subject string) *Sess {
	s := NewSess(subject)
	s.NoExp = w.Cfg.SessNoExp
	return s
}
