package harness

import (
	"context"
	"encoding/json"
	"html"
	"net/http/httptest"
	"net/url"
	"sort"
	"strings"

	"github.com/ory/fosite"
)

func init() { tableRunners["c20wire"] = runC20Wire }

var errByName = map[string]*fosite.RFC6749Error{
	"invalid_request": fosite.ErrInvalidRequest, "unauthorized_client": fosite.ErrUnauthorizedClient, "access_denied": fosite.ErrAccessDenied,
	"unsupported_response_type": fosite.ErrUnsupportedResponseType, "invalid_scope": fosite.ErrInvalidScope, "server_error": fosite.ErrServerError,
	"temporarily_unavailable": fosite.ErrTemporarilyUnavailable, "unsupported_grant_type": fosite.ErrUnsupportedGrantType,
	"invalid_grant": fosite.ErrInvalidGrant, "invalid_client": fosite.ErrInvalidClient, "invalid_state": fosite.ErrInvalidState,
	"request_unauthorized": fosite.ErrRequestUnauthorized, "token_inactive": fosite.ErrInactiveToken, "invalid_request_uri": fosite.ErrInvalidRequestURI,
	"authorization_pending": fosite.ErrAuthorizationPending, "expired_token": fosite.ErrDeviceExpiredToken,
}

func hostile(kind, tag string) string {
	switch kind {
	case "plain":
		return tag + " a plain sentence."
	case "quotes":
		return tag + ` he said "hi" and 'bye' \ back\\slash "`
	case "control":
		return tag + " line1\nline2\ttab\x00nul\x1besc\r\n"
	case "html":
		return tag + ` <b>bold</b>&amp;<img src=x onerror=alert(1)> &lt;`
	case "script":
		return tag + ` </script><script>alert(1)</script>"><svg/onload=alert(2)>`
	case "non_utf8":
		return tag + " bad\xff\xfeutf8 \xc3\x28"
	case "long":
		return tag + " " + strings.Repeat("long text with spaces & symbols; ", 160)
	case "unicode":
		return tag + " héllo ✓ 日本語   \U0001F600"
	}
	return ""
}

// normUTF8 identifies the harmless normalisations encoders apply to text that is not valid
// UTF-8 or contains NUL: each offending byte (or run of them) becomes U+FFFD.
func normUTF8(s string) string {
	s = strings.ReplaceAll(s, "\x00", "\ufffd")
	s = strings.ToValidUTF8(s, "\ufffd")
	for strings.Contains(s, "\ufffd\ufffd") {
		s = strings.ReplaceAll(s, "\ufffd\ufffd", "\ufffd")
	}
	return s
}

func runC20Wire(rep *TReport, raw json.RawMessage) {
	var r struct {
		Writer, Error, Text, Place string
		Legacy, Expose             bool
		WithDebug                  bool `json:"with_debug"`
		Status                     int
		NoStore                    bool `json:"no_store"`
		Desc                       []string
		QuoteReplaced              bool `json:"quote_replaced"`
		HintMember                 bool `json:"hint_member"`
		DebugMember                bool `json:"debug_member"`
		DebugMayAppear             bool `json:"debug_may_appear"`
		StateEchoed                bool `json:"state_echoed"`
	}
	if err := json.Unmarshal(raw, &r); err != nil {
		panic(err)
	}
	w := NewWorld(DefaultCfg())
	w.Rec.Keep = false
	w.Config.UseLegacyErrorFormat = r.Legacy
	w.Config.SendDebugMessagesToClients = r.Expose
	base := errByName[r.Error]
	H, G := hostile(r.Text, "HINTMARK"), ""
	e := base
	if r.Text != "empty" {
		e = e.WithHint(H)
		if r.WithDebug {
			G = hostile(r.Text, "DEBUGMARK")
			e = e.WithDebug(G)
		}
	} else {
		H = base.HintField // the library's default hint for this error, possibly none
	}
	D := base.DescriptionField
	ctx := context.Background()
	rec := httptest.NewRecorder()
	state := "state-0123456789"
	switch r.Text { // the state is the client's string: it is reflected, so it is hostile in the rows whose texts are
	case "quotes", "html", "script", "control":
		state = "st-0123&error=access_denied&injected=1+$:@=;#?/\"<'>%26 end"
	case "unicode":
		state = "st-0123456789-é中文+ "
	}
	mkAR := func(mode fosite.ResponseModeType, valid bool) *fosite.AuthorizeRequest {
		ar := fosite.NewAuthorizeRequest()
		ar.Client = w.Mem.Clients["A"]
		ar.State = state
		ar.ResponseMode = mode
		ar.DefaultResponseMode = mode
		if valid {
			u, _ := url.Parse(RedirectOf["A"])
			ar.RedirectURI = u
		}
		return ar
	}
	switch r.Writer {
	case "access", "device":
		w.Provider.WriteAccessError(ctx, rec, fosite.NewAccessRequest(NewSess(Subject)), e)
	case "par":
		w.Provider.WritePushedAuthorizeError(ctx, rec, mkAR(fosite.ResponseModeQuery, true), e)
	case "authorize_no_redirect":
		w.Provider.WriteAuthorizeError(ctx, rec, mkAR(fosite.ResponseModeQuery, false), e)
	case "authorize_query":
		w.Provider.WriteAuthorizeError(ctx, rec, mkAR(fosite.ResponseModeQuery, true), e)
	case "authorize_fragment":
		w.Provider.WriteAuthorizeError(ctx, rec, mkAR(fosite.ResponseModeFragment, true), e)
	case "authorize_form_post":
		w.Provider.WriteAuthorizeError(ctx, rec, mkAR(fosite.ResponseModeFormPost, true), e)
	case "introspection":
		w.Provider.WriteIntrospectionError(ctx, rec, e)
	case "revocation":
		w.Provider.WriteRevocationResponse(ctx, rec, e)
	}
	body := rec.Body.String()
	rep.cmp(raw, "status", r.Status, rec.Code, false)
	rep.cmp(raw, "cache_control_no_store", "no-store", rec.Header().Get("Cache-Control"), false)
	rep.cmp(raw, "pragma_no_cache", "no-cache", rec.Header().Get("Pragma"), false)
	// debug detail only when the operator enabled it: the marker must not occur anywhere in the output
	all := body + rec.Header().Get("Location")
	if dec, err := url.QueryUnescape(strings.ReplaceAll(all, "+", " ")); err == nil {
		all += dec
	}
	if !r.DebugMayAppear && G != "" {
		rep.cmp(raw, "debug_leaked", false, strings.Contains(all, "DEBUGMARK"), false)
	}
	// decode the fields with parsers that are not the ones the writer used
	fields := map[string]string{}
	switch r.Place {
	case "json":
		rep.cmp(raw, "content_type", "application/json;charset=UTF-8", rec.Header().Get("Content-Type"), false)
		var m map[string]interface{}
		if err := json.Unmarshal([]byte(body), &m); err != nil {
			rep.cmp(raw, "body_is_json", "ok", err.Error()+": "+body[:min(len(body), 120)], false)
			return
		}
		for k, v := range m {
			if s, ok := v.(string); ok {
				fields[k] = s
			}
		}
	case "query", "fragment":
		loc := rec.Header().Get("Location")
		sep := "?"
		if r.Place == "fragment" {
			sep = "#"
		}
		i := strings.Index(loc, sep)
		if i < 0 {
			rep.cmp(raw, "location_has_"+r.Place, true, false, false)
			return
		}
		rep.cmp(raw, "redirect_base", RedirectOf["A"], loc[:i], false)
		v, err := url.ParseQuery(loc[i+1:])
		if err != nil {
			rep.cmp(raw, "parameters_parse", "ok", err.Error(), false)
			return
		}
		for k := range v {
			fields[k] = v.Get(k)
		}
	case "form":
		rep.cmp(raw, "content_type", "text/html;charset=UTF-8", rec.Header().Get("Content-Type"), false)
		// nothing reflected may break out of the attribute it is written into
		rep.cmp(raw, "unescaped_markup_in_form_page", false, strings.Contains(body, "<script>alert") || strings.Contains(body, "<img src=x") || strings.Contains(body, "<svg/onload"), false)
		names := []string{}
		for _, m := range formInput.FindAllStringSubmatch(body, -1) {
			fields[html.UnescapeString(m[1])] = html.UnescapeString(m[2])
			names = append(names, html.UnescapeString(m[1]))
		}
		sort.Strings(names)
		if m := formAction.FindStringSubmatch(body); m != nil {
			rep.cmp(raw, "form_action", RedirectOf["A"], html.UnescapeString(m[1]), false)
		}
	case "inactive":
		rep.cmp(raw, "inactive_body", `{"active":false}`, strings.TrimSpace(body), false)
		return
	case "none":
		rep.cmp(raw, "empty_body", "", body, false)
		return
	}
	rep.cmp(raw, "error_code", r.Error, fields["error"], false)
	// expected decoded description
	parts := []string{}
	for _, a := range r.Desc {
		switch a {
		case "D":
			parts = append(parts, D)
		case "D0":
			parts = append(parts, D)
			if base.HintField != "" {
				parts = append(parts, base.HintField)
			}
		case "H":
			parts = append(parts, H)
		case "G":
			parts = append(parts, G)
		}
	}
	if r.Text == "empty" && !r.Legacy && r.Writer != "revocation" && H != "" {
		parts = append(parts, H)
	}
	if r.Writer == "revocation" {
		r.QuoteReplaced = true
	}
	want := strings.Join(parts, " ")
	if r.QuoteReplaced {
		want = strings.ReplaceAll(want, `"`, "'")
	}
	rep.cmp(raw, "error_description", normUTF8(want), normUTF8(fields["error_description"]), false)
	if r.Writer != "revocation" {
		wantHint, wantDebug := "", ""
		if r.Legacy && H != "" {
			wantHint = H
		}
		if r.DebugMember {
			wantDebug = G
		}
		rep.cmp(raw, "error_hint", normUTF8(wantHint), normUTF8(fields["error_hint"]), false)
		rep.cmp(raw, "error_debug", normUTF8(wantDebug), normUTF8(fields["error_debug"]), false)
	}
	if r.StateEchoed {
		rep.cmp(raw, "state", state, fields["state"], false)
	}
}
