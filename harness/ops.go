package harness

import (
	"context"
	"crypto/sha256"
	"encoding/base64"
	"encoding/json"
	"fmt"
	"net/http"
	"net/http/httptest"
	"net/url"
	"regexp"
	"strings"
	"time"

	"github.com/ory/fosite"
)

// Op is one abstract operation. The same record is produced by TLC (history variable of
// the specification), consumed by the executor, and echoed into the trace.
type Op struct {
	Op     string   `json:"op"`
	Client string   `json:"client"`
	Auth   string   `json:"auth"`            // "ok" | "bad" | "none"
	RType  string   `json:"rtype"`           // authorize: response type combination
	Scopes []string `json:"scopes"`          // requested scopes
	Grant  []string `json:"grant"`           // scopes the resource owner grants
	GAud   []string `json:"gaud"`            // audiences the resource owner grants (["*"] = all requested ones)
	Aud    []string `json:"aud"`             // requested (= granted) audience
	Redir  string   `json:"redir"`           // authorize: "sent"|"omit"; redeem: "same"|"absent"|"diff"|"enc"
	Pkce   string   `json:"pkce"`            // authorize: "none"|"S256"|"plain"|"plain_nm"|"plain_short"
	Ill    string   `json:"ill,omitempty"`   // authorize with pkce *_ill: which reserved character the verifier contains
	Forge  string   `json:"forge,omitempty"` // devpoll: the device code is rebuilt from its signature ("sig_only" | "sig_junk")
	Ver    string   `json:"ver"`             // redeem: "none"|"right"|"wrong"|"short"|"long"|"illegal"|"other"
	Code   int      `json:"code"`
	Tok    int      `json:"tok"`
	Kind   string   `json:"kind"` // "at"|"rt"|"unk"
	Hint   string   `json:"hint"` // "at"|"rt"|"bad"|"none"
	XScope []string `json:"xscope"`
	XAud   []string `json:"xaud"`
	N      int      `json:"n"`
	Caller string   `json:"caller"` // introspect: "basic"|"basic_bad"|"bearer"|"self"|"none"
	Need   []string `json:"need"`
	Dev    int      `json:"dev"`
	Dec    string   `json:"dec"` // device decision "accept"|"reject"
	Par    int      `json:"par"`
	Field  string   `json:"field"` // client change / PAR override field
	Val    string   `json:"val"`
	User   string   `json:"user"` // password grant: "ok"|"bad"
}

// Obs is what the harness observed for one operation.
type Obs struct {
	Res    string         `json:"res"`    // "ok" or the RFC 6749 error name
	Status int            `json:"status"` // HTTP status the matching Write* function produced
	New    map[string]int `json:"new"`    // abstract ids of the credentials handed out (0 = none)
	IDT    bool           `json:"idt"`    // an ID token was delivered
	ExpIn  int            `json:"exp_in"` // advertised expires_in in ticks (-1 = not advertised)
	Note   string         `json:"note"`
}

func errName(err error) string {
	if err == nil {
		return "ok"
	}
	return fosite.ErrorToRFC6749Error(err).ErrorField
}

func newObs() Obs {
	return Obs{Res: "ok", New: map[string]int{"code": 0, "at": 0, "rt": 0, "dev": 0, "par": 0}, ExpIn: -1}
}

func (w *World) ctx(p int) context.Context { return WithProc(context.Background(), p) }

func (w *World) setAuth(r *http.Request, form url.Values, client, auth string) {
	c, ok := w.Mem.Clients[client]
	public := ok && c.IsPublic()
	switch auth {
	case "ok":
		if public {
			form.Set("client_id", client)
		} else {
			r.SetBasicAuth(url.QueryEscape(client), url.QueryEscape(ClientSecrets[client]))
		}
	case "body": // client_secret_post style
		form.Set("client_id", client)
		if !public {
			form.Set("client_secret", ClientSecrets[client])
		}
	case "assertion": // private_key_jwt (client J): a fresh signed assertion in the body
		_, _, k2 := Keys()
		now := time.Now()
		w.mu.Lock()
		w.assertionSeq++
		jti := fmt.Sprintf("jti-auth-%d", w.assertionSeq)
		w.mu.Unlock()
		a := signJWT("RS256", k2, "kid-j", map[string]interface{}{"iss": client, "sub": client, "aud": TokenURL, "exp": now.Add(Tick).Unix(), "iat": now.Unix(), "jti": jti})
		w.mu.Lock()
		w.Assertions = append(w.Assertions, a)
		w.mu.Unlock()
		form.Set("client_assertion_type", "urn:ietf:params:oauth:client-assertion-type:jwt-bearer")
		form.Set("client_assertion", a)
	case "bad":
		r.SetBasicAuth(url.QueryEscape(client), url.QueryEscape("not-the-secret"))
	case "other": // another client's secret
		r.SetBasicAuth(url.QueryEscape(client), url.QueryEscape(ClientSecrets["B"]+ClientSecrets["A"]))
	case "none":
	}
}

func contains(l []string, x string) bool {
	for _, y := range l {
		if x == y {
			return true
		}
	}
	return false
}

func postReq(path string) *http.Request {
	r := httptest.NewRequest("POST", "https://issuer.example"+path, nil)
	r.Header.Set("Content-Type", "application/x-www-form-urlencoded")
	return r
}

func finishPost(r *http.Request, form url.Values) {
	r.PostForm = form
	r.Form = form
}

const unknownToken = "ory_xx_b3JwaGFuLXRva2VuLW5ldmVyLW1pbnRlZC1ieS10aGlzLXNlcnZlcg.c2lnbmF0dXJlLW9mLW5vdGhpbmctYXQtYWxsLTAxMjM0NTY3ODk"

func rowKey(kind, tok string) string {
	if kind == "par" {
		return tok
	}
	return sigOf(tok)
}

// deliver registers a credential the harness was handed and returns its abstract id: the
// position of its row in the store's creation order (-1 if the store never saw such a row).
func (w *World) deliver(kind, tok string) int {
	key := rowKey(kind, tok)
	w.Tok[kind][key] = tok
	if id := w.Rec.IDOf(kind, key); id > 0 {
		return id
	}
	return -1
}

// tok returns the credential string for an abstract id; ids of rows whose credential was
// never delivered (or that do not exist) yield a well-formed credential this server never minted.
func (w *World) tok(kind string, id int) string {
	if key := w.Rec.KeyOf(kind, id); key != "" {
		if t, ok := w.Tok[kind][key]; ok {
			return t
		}
	}
	if kind == "par" { // a request_uri with the right prefix that was never handed out
		return w.Config.GetPushedAuthorizeRequestURIPrefix(context.Background()) + "bm90LWEtcHVzaGVkLXJlcXVlc3QtMDEyMzQ1Njc4OQ"
	}
	return unknownToken
}

func (w *World) count(kind string) int { return len(w.Rec.Keys(kind)) }

var illChars = map[string]string{"bang": "!", "bracket": "[", "caret": "^", "backtick": "`", "backslash": "\\", "space": " ", "plus": "+"}

func verifierFor(id int, variant string) string {
	return verifierVariant(fmt.Sprintf("verifier-%03d-abcdefghijklmnopqrstuvwxyz-0123456789", id), variant) // 50 chars
}

func verifierVariant(base, variant string) string {
	switch variant {
	case "wrong":
		return "WRONGONE" + base[8:]
	case "short":
		return base[:42]
	case "long":
		return base + strings.Repeat("x", 129-len(base))
	case "illegal":
		return base[:49] + "!"
	}
	return base
}

func s256(v string) string {
	h := sha256.Sum256([]byte(v))
	return base64.RawURLEncoding.EncodeToString(h[:])
}

// Exec executes one operation on the real provider and returns the observation.
func (w *World) Exec(p int, op Op) Obs {
	switch op.Op {
	case "authorize":
		return w.doAuthorize(p, op)
	case "redeem":
		return w.doRedeem(p, op)
	case "refresh":
		return w.doRefresh(p, op)
	case "revoke":
		return w.doRevoke(p, op)
	case "introspect":
		return w.doIntrospect(p, op)
	case "ccreds":
		return w.doClientCreds(p, op)
	case "password":
		return w.doPassword(p, op)
	case "tick":
		n := op.N
		if n <= 0 {
			n = 1
		}
		time.Sleep(time.Duration(n) * Tick)
		return newObs()
	case "devstart":
		return w.doDevStart(p, op)
	case "devdecide":
		return w.doDevDecide(p, op)
	case "devpoll":
		return w.doDevPoll(p, op)
	case "push":
		return w.doPush(p, op)
	case "usepar":
		return w.doUsePar(p, op)
	case "clientchange":
		return w.doClientChange(p, op)
	case "jauth":
		return w.doJAuth(p, op.Val)
	case "jbearer":
		return w.doJWTBearer(p, BearerSpec{Iss: "iss-1", Sub: "sub-1", Kid: "kid-1", Scopes: []string{"a"}, JTI: op.Val})
	case "noop":
		return newObs()
	}
	o := newObs()
	o.Res = "harness_unknown_op"
	return o
}

var rtypeOf = map[string]string{"code": "code", "code_token": "code token", "code_idt": "code id_token", "code_idt_token": "code id_token token",
	"token": "token", "idt_token": "id_token token", "idt": "id_token"}

func (w *World) authorizeQuery(op Op) url.Values {
	q := url.Values{}
	q.Set("client_id", op.Client)
	q.Set("response_type", rtypeOf[op.RType])
	q.Set("scope", strings.Join(op.Scopes, " "))
	q.Set("state", GoodState)
	q.Set("nonce", GoodNonce)
	if len(op.Aud) > 0 {
		q.Set("audience", strings.Join(op.Aud, " "))
	}
	if op.Redir == "sent" {
		q.Set("redirect_uri", RedirectOf[op.Client])
	}
	for k, v := range w.ExtraAuthz {
		q[k] = v
	}
	return q
}

func (w *World) doAuthorize(p int, op Op) Obs {
	o := newObs()
	q := w.authorizeQuery(op)
	w.mu.Lock()
	w.authzCalls++
	ver := verifierFor(w.authzCalls, "") // one verifier per authorization request
	w.mu.Unlock()
	switch op.Pkce {
	case "S256":
		q.Set("code_challenge", s256(ver))
		q.Set("code_challenge_method", "S256")
	case "plain":
		q.Set("code_challenge", ver)
		q.Set("code_challenge_method", "plain")
	case "plain_nm":
		q.Set("code_challenge", ver)
	case "s256lc": // a method name in another spelling is an unknown method
		q.Set("code_challenge", s256(ver))
		q.Set("code_challenge_method", "s256")
	case "plain_short": // a malformed challenge: the verifier variant "short" is byte-equal to it
		q.Set("code_challenge", ver[:42])
		q.Set("code_challenge_method", "plain")
	case "S256_ill", "plain_ill": // the client's verifier contains a character outside the unreserved set
		ver = ver[:30] + illChars[op.Ill] + ver[31:]
		if op.Pkce == "S256_ill" {
			q.Set("code_challenge", s256(ver))
			q.Set("code_challenge_method", "S256")
		} else {
			q.Set("code_challenge", ver)
			q.Set("code_challenge_method", "plain")
		}
	}
	o = w.finishAuthorize(p, op, q, o)
	if id := o.New["code"]; id > 0 {
		w.mu.Lock()
		w.Verifier[id] = ver
		w.PkceOf[id] = op.Pkce
		w.mu.Unlock()
	}
	return o
}

func (w *World) finishAuthorize(p int, op Op, q url.Values, o Obs) Obs {
	ctx := w.ctx(p)
	r := httptest.NewRequest("GET", "https://issuer.example/auth?"+q.Encode(), nil)
	ar, err := w.Provider.NewAuthorizeRequest(ctx, r)
	rec := httptest.NewRecorder()
	if err != nil {
		o.Res = errName(err)
		w.Provider.WriteAuthorizeError(ctx, rec, ar, err)
		o.Status = rec.Code
		return o
	}
	for _, s := range op.Grant {
		if ar.GetRequestedScopes().Has(s) {
			ar.GrantScope(s)
		}
	}
	for _, a := range ar.GetRequestedAudience() {
		// nil (an operation built in Go without the field) or ["*"]: the resource owner grants every requested audience
		if op.GAud == nil || len(op.GAud) == 1 && op.GAud[0] == "*" || contains(op.GAud, a) {
			ar.GrantAudience(a)
		}
	}
	resp, err := w.Provider.NewAuthorizeResponse(ctx, ar, w.session())
	if err != nil {
		o.Res = errName(err)
		w.Provider.WriteAuthorizeError(ctx, rec, ar, err)
		o.Status = rec.Code
		return o
	}
	w.Provider.WriteAuthorizeResponse(ctx, rec, ar, resp)
	o.Status = rec.Code
	if c := resp.GetCode(); c != "" {
		id := w.deliver("code", c)
		w.codeOwner[id] = op.Client
		o.New["code"] = id
	}
	if t := resp.GetParameters().Get("access_token"); t != "" {
		o.New["at"] = w.deliver("at", t)
		o.ExpIn = expInTicks(resp.GetParameters().Get("expires_in"))
	}
	if t := resp.GetParameters().Get("id_token"); t != "" {
		w.IDTs = append(w.IDTs, t)
		o.IDT = true
	}
	return o
}

func expInTicks(s string) int {
	if s == "" {
		return -1
	}
	var n int64
	fmt.Sscanf(s, "%d", &n)
	d := time.Duration(n) * time.Second
	if d%Tick != 0 {
		return -2 - int(d/Tick) // not a whole number of ticks: never matches the model
	}
	return int(d / Tick)
}

// protoSubject is the subject of the session prototype an application hands to NewAccessRequest. For the
// grants that redeem an earlier authorization (code, refresh token, device code) the prototype must be
// replaced by the stored session, so it carries a decoy subject that must never reach a token.
func protoSubject(r *http.Request) string {
	_ = r.ParseForm()
	switch r.PostForm.Get("grant_type") {
	case "authorization_code", "refresh_token", "urn:ietf:params:oauth:grant-type:device_code":
		return "decoy-subject"
	}
	return Subject
}

// tokenCall runs NewAccessRequest / NewAccessResponse / Write* like an application would.
func (w *World) tokenCall(p int, r *http.Request, grantAllRequested bool) (Obs, fosite.AccessRequester, fosite.AccessResponder) {
	o := newObs()
	ctx := w.ctx(p)
	rec := httptest.NewRecorder()
	ar, err := w.Provider.NewAccessRequest(ctx, r, w.tokenSess(protoSubject(r)))
	if err != nil {
		o.Res = errName(err)
		w.Provider.WriteAccessError(ctx, rec, ar, err)
		o.Status = rec.Code
		return o, ar, nil
	}
	if grantAllRequested {
		for _, s := range ar.GetRequestedScopes() {
			if w.grantOnly == nil || contains(w.grantOnly, s) {
				ar.GrantScope(s)
			}
		}
		for _, a := range ar.GetRequestedAudience() {
			ar.GrantAudience(a)
		}
	}
	resp, err := w.Provider.NewAccessResponse(ctx, ar)
	if err != nil {
		o.Res = errName(err)
		w.Provider.WriteAccessError(ctx, rec, ar, err)
		o.Status = rec.Code
		return o, ar, nil
	}
	w.Provider.WriteAccessResponse(ctx, rec, ar, resp)
	o.Status = rec.Code
	var body map[string]interface{}
	_ = json.Unmarshal(rec.Body.Bytes(), &body)
	if t, _ := body["access_token"].(string); t != "" {
		o.New["at"] = w.deliver("at", t)
	}
	if t, _ := body["refresh_token"].(string); t != "" {
		o.New["rt"] = w.deliver("rt", t)
	}
	if t, _ := body["id_token"].(string); t != "" {
		w.IDTs = append(w.IDTs, t)
		o.IDT = true
	}
	if e, ok := body["expires_in"].(float64); ok {
		o.ExpIn = expInTicks(fmt.Sprintf("%d", int64(e)))
	}
	return o, ar, resp
}

func (w *World) doRedeem(p int, op Op) Obs {
	r := postReq("/token")
	f := url.Values{}
	f.Set("grant_type", "authorization_code")
	f.Set("code", w.tok("code", op.Code))
	owner := w.codeOwner[op.Code]
	switch op.Redir {
	case "same":
		f.Set("redirect_uri", RedirectOf[owner])
	case "diff":
		f.Set("redirect_uri", RedirectOf[owner]+"2")
	case "enc":
		f.Set("redirect_uri", strings.Replace(RedirectOf[owner], "/cb", "/%63b", 1))
	}
	switch op.Ver {
	case "none", "":
	case "right":
		f.Set("code_verifier", w.verifierOf(op.Code))
	case "other":
		// the string that would be right under the *other* method
		if w.PkceOf[op.Code] == "S256" {
			f.Set("code_verifier", s256(w.verifierOf(op.Code)))
		} else {
			f.Set("code_verifier", s256(w.verifierOf(op.Code))+"AAAA")
		}
	default:
		f.Set("code_verifier", verifierVariant(w.verifierOf(op.Code), op.Ver))
	}
	if len(op.XScope) > 0 {
		f.Set("scope", strings.Join(op.XScope, " "))
	}
	if len(op.XAud) > 0 {
		f.Set("audience", strings.Join(op.XAud, " "))
	}
	if op.Auth == "hdr_victim" { // the presenting public client in the header, the code's owner in the body
		r.SetBasicAuth(url.QueryEscape(op.Client), "")
		f.Set("client_id", owner)
	} else {
		w.setAuth(r, f, op.Client, op.Auth)
	}
	finishPost(r, f)
	o, _, _ := w.tokenCall(p, r, false)
	return o
}

func (w *World) doRefresh(p int, op Op) Obs {
	r := postReq("/token")
	f := url.Values{}
	f.Set("grant_type", "refresh_token")
	f.Set("refresh_token", w.tok("rt", op.Tok))
	if len(op.XScope) > 0 {
		f.Set("scope", strings.Join(op.XScope, " "))
	}
	if len(op.XAud) > 0 {
		f.Set("audience", strings.Join(op.XAud, " "))
	}
	w.setAuth(r, f, op.Client, op.Auth)
	finishPost(r, f)
	o, _, _ := w.tokenCall(p, r, false)
	return o
}

func (w *World) doClientCreds(p int, op Op) Obs {
	r := postReq("/token")
	f := url.Values{}
	f.Set("grant_type", "client_credentials")
	f.Set("scope", strings.Join(op.Scopes, " "))
	if len(op.Aud) > 0 {
		f.Set("audience", strings.Join(op.Aud, " "))
	}
	w.setAuth(r, f, op.Client, op.Auth)
	finishPost(r, f)
	o, _, _ := w.tokenCall(p, r, true)
	return o
}

func (w *World) doPassword(p int, op Op) Obs {
	r := postReq("/token")
	f := url.Values{}
	f.Set("grant_type", "password")
	f.Set("scope", strings.Join(op.Scopes, " "))
	if len(op.Aud) > 0 {
		f.Set("audience", strings.Join(op.Aud, " "))
	}
	f.Set("username", Subject)
	if op.User == "bad" {
		f.Set("password", "wrong-password")
	} else {
		f.Set("password", Password)
	}
	w.setAuth(r, f, op.Client, op.Auth)
	finishPost(r, f)
	if op.Grant != nil { // the application grants only these of the requested scopes
		w.grantOnly = append([]string{}, op.Grant...)
		defer func() { w.grantOnly = nil }()
	}
	o, _, _ := w.tokenCall(p, r, true)
	return o
}

func hintStr(h string) string {
	switch h {
	case "at":
		return "access_token"
	case "rt":
		return "refresh_token"
	case "bad":
		return "no_such_token_type"
	}
	return ""
}

func (w *World) doRevoke(p int, op Op) Obs {
	o := newObs()
	ctx := w.ctx(p)
	r := postReq("/revoke")
	f := url.Values{}
	f.Set("token", w.tok(op.Kind, op.Tok))
	if h := hintStr(op.Hint); h != "" {
		f.Set("token_type_hint", h)
	}
	w.setAuth(r, f, op.Client, op.Auth)
	finishPost(r, f)
	err := w.Provider.NewRevocationRequest(ctx, r)
	rec := httptest.NewRecorder()
	w.Provider.WriteRevocationResponse(ctx, rec, err)
	o.Res = errName(err)
	o.Status = rec.Code
	return o
}

func (w *World) doIntrospect(p int, op Op) Obs {
	o := newObs()
	ctx := w.ctx(p)
	r := postReq("/introspect")
	f := url.Values{}
	f.Set("token", w.tok(op.Kind, op.Tok))
	if h := hintStr(op.Hint); h != "" {
		f.Set("token_type_hint", h)
	}
	if len(op.Need) > 0 {
		f.Set("scope", strings.Join(op.Need, " "))
	}
	switch op.Caller {
	case "basic":
		r.SetBasicAuth(url.QueryEscape(op.Client), url.QueryEscape(ClientSecrets[op.Client]))
	case "basic_bad":
		r.SetBasicAuth(url.QueryEscape(op.Client), "nope")
	case "bearer":
		r.Header.Set("Authorization", "Bearer "+w.tok("at", op.N))
	case "bearer_rt":
		r.Header.Set("Authorization", "Bearer "+w.tok("rt", op.N))
	case "self":
		r.Header.Set("Authorization", "Bearer "+w.tok(op.Kind, op.Tok))
	}
	finishPost(r, f)
	resp, err := w.Provider.NewIntrospectionRequest(ctx, r, NewSess(""))
	rec := httptest.NewRecorder()
	if err != nil {
		w.Provider.WriteIntrospectionError(ctx, rec, err)
	} else {
		w.Provider.WriteIntrospectionResponse(ctx, rec, resp)
	}
	o.Status = rec.Code
	var body map[string]interface{}
	_ = json.Unmarshal(rec.Body.Bytes(), &body)
	switch {
	case rec.Code != 200:
		o.Res = errName(err)
	case body["active"] == true:
		o.Res = "active"
		// the kind is not part of the JSON body; the responder and IntrospectToken's return value carry it
		use := map[fosite.TokenUse]string{fosite.AccessToken: "at", fosite.RefreshToken: "rt"}[resp.GetTokenUse()]
		o.Note = fmt.Sprintf("use=%s|%v|%v|%s", use, body["client_id"], body["sub"], strings.Join(sortedCopy(strings.Fields(fmt.Sprint(body["scope"]))), " "))
	default:
		o.Res = "inactive"
		o.Note = "bare"
		if len(body) != 1 {
			o.Note = "extra-members"
		}
	}
	return o
}

func (w *World) doClientChange(p int, op Op) Obs {
	o := newObs()
	// a registration update stores a NEW client record, as every store that serialises clients does: requests stored
	// earlier keep (a pointer to) the old record
	nc := *w.Mem.Clients[op.Client].(*fosite.DefaultClient)
	c := &nc
	w.Mem.Clients[op.Client] = c
	rm := func(l []string, v string) []string {
		out := []string{}
		for _, x := range l {
			if x != v {
				out = append(out, x)
			}
		}
		return out
	}
	switch op.Field {
	case "rm_scope":
		c.Scopes = rm(c.Scopes, op.Val)
	case "rm_aud":
		if op.Val == "*" {
			c.Audience = []string{}
		} else {
			c.Audience = rm(c.Audience, op.Val)
		}
	case "rm_grant":
		c.GrantTypes = rm(c.GrantTypes, op.Val)
	case "restore":
		c.Scopes = append([]string{}, AllScopes...)
		c.Audience = append([]string{}, AllAud...)
		c.GrantTypes = append([]string{}, allGrantTypes...)
	}
	return o
}

// ---- probes and projection -------------------------------------------------------

// TokState is the introspection probe of one token.
type TokState struct {
	ID     int      `json:"id"`
	Client string   `json:"client"`
	Sub    string   `json:"sub"`
	Scopes []string `json:"scopes"`
	Aud    []string `json:"aud"`
	Exp    int      `json:"exp"` // access tokens: expiry in ticks; refresh tokens: 0
}

// Probe introspects every token the harness ever received (read-only).
func (w *World) Probe() (ats []TokState, rts []TokState) {
	ctx := w.ctx(0)
	keep := w.Rec.Keep
	w.Rec.Keep = false
	hook := w.Rec.Hook
	w.Rec.Hook = nil
	defer func() { w.Rec.Keep = keep; w.Rec.Hook = hook }()
	ats, rts = []TokState{}, []TokState{}
	for i, key := range w.Rec.Keys("at") {
		t, ok := w.Tok["at"][key]
		if !ok {
			continue // created but never delivered: nobody can present it
		}
		tu, ar, err := w.Provider.IntrospectToken(ctx, t, fosite.AccessToken, NewSess(""))
		if err != nil {
			continue
		}
		st := tokState(i+1, ar)
		if tu != fosite.AccessToken {
			st.Client = "WRONG-USE:" + string(tu)
		}
		exp := ar.GetSession().GetExpiresAt(fosite.AccessToken)
		if exp.IsZero() { // a session that does not remember it: the expiry is requested_at + the configured lifetime
			exp = ar.GetRequestedAt().Add(time.Duration(w.Cfg.LAT) * Tick)
		}
		st.Exp = int(exp.Sub(w.T0) / Tick)
		// a JWT access token says on its face what it carries: a scope or audience claim that was not granted is reported
		// as part of the payload, whatever the stored session says
		if pl := jwtPayload(t); pl != nil {
			for _, x := range claimStrings(pl["aud"]) {
				if !contains(st.Aud, x) {
					st.Aud = append(st.Aud, "JWT-CLAIM-NOT-GRANTED:"+x)
				}
			}
			for _, x := range append(claimStrings(pl["scp"]), strings.Fields(strings.Join(claimStrings(pl["scope"]), " "))...) {
				if !contains(st.Scopes, x) {
					st.Scopes = append(st.Scopes, "JWT-CLAIM-NOT-GRANTED:"+x)
				}
			}
		}
		ats = append(ats, st)
	}
	{ // with refresh-token introspection disabled every refresh token must come back inactive
		for i, key := range w.Rec.Keys("rt") {
			t, ok := w.Tok["rt"][key]
			if !ok {
				continue
			}
			tu, ar, err := w.Provider.IntrospectToken(ctx, t, fosite.RefreshToken, NewSess(""))
			if err != nil {
				continue
			}
			st := tokState(i+1, ar)
			if tu != fosite.RefreshToken {
				st.Client = "WRONG-USE:" + string(tu)
			}
			rts = append(rts, st)
		}
	}
	return
}

// claimStrings reads a claim that is a string or a list of strings.
func claimStrings(v interface{}) []string {
	switch x := v.(type) {
	case string:
		if x == "" {
			return nil
		}
		return []string{x}
	case []interface{}:
		out := []string{}
		for _, e := range x {
			if s, ok := e.(string); ok {
				out = append(out, s)
			}
		}
		return out
	}
	return nil
}

var uuidRe = regexp.MustCompile(`^[0-9a-f]{8}-[0-9a-f]{4}-[0-9a-f]{4}-[0-9a-f]{4}-[0-9a-f]{12}$`)

func tokState(id int, ar fosite.AccessRequester) TokState {
	sub := ar.GetSession().GetSubject()
	if uuidRe.MatchString(sub) { // the reference store's Authenticate invents a random subject
		sub = "uuid"
	}
	return TokState{ID: id, Client: ar.GetClient().GetID(), Sub: sub,
		Scopes: sortedCopy(ar.GetGrantedScopes()), Aud: sortedCopy(ar.GetGrantedAudience())}
}

// Proj is the projection of the reference store onto the abstract state of the spec.
type Proj struct {
	CodeActive   []int `json:"code_active"`
	CodeInactive []int `json:"code_inactive"`
	AT           []int `json:"at"`
	RTActive     []int `json:"rt_active"`
	RTInactive   []int `json:"rt_inactive"`
	Pkce         []int `json:"pkce"` // code ids that have a PKCE row
	Oidc         []int `json:"oidc"` // code ids that have an OIDC session row
	Dev          []int `json:"dev"`
	Par          []int `json:"par"`
	NAT          int   `json:"n_at"` // raw table sizes: rows nobody holds a credential for show up here
	NRT          int   `json:"n_rt"`
	NCode        int   `json:"n_code"`
	NPkce        int   `json:"n_pkce"`
	NOidc        int   `json:"n_oidc"`
	NPar         int   `json:"n_par"`
	NDev         int   `json:"n_dev"`
	NJTI         int   `json:"n_jti"`
}

func (w *World) Project() Proj {
	m := w.Mem
	ctx := context.Background()
	pr := Proj{CodeActive: []int{}, CodeInactive: []int{}, AT: []int{}, RTActive: []int{}, RTInactive: []int{}, Pkce: []int{}, Oidc: []int{}, Dev: []int{}, Par: []int{}}
	for i, sig := range w.Rec.Keys("code") {
		_, err := m.GetAuthorizeCodeSession(ctx, sig, nil)
		if err == nil {
			pr.CodeActive = append(pr.CodeActive, i+1)
		} else if err == fosite.ErrInvalidatedAuthorizeCode {
			pr.CodeInactive = append(pr.CodeInactive, i+1)
		}
		if _, ok := m.PKCES[sig]; ok {
			pr.Pkce = append(pr.Pkce, i+1)
		}
		_, ok1 := m.IDSessions[sig]
		_, ok2 := m.IDSessions[w.Tok["code"][sig]]
		if ok1 || (ok2 && w.Tok["code"][sig] != "") {
			pr.Oidc = append(pr.Oidc, i+1)
		} else {
			for k := range m.IDSessions { // sessions keyed by the complete code (see DESIGN.md F7)
				if strings.HasSuffix(k, "."+sig) {
					pr.Oidc = append(pr.Oidc, i+1)
					break
				}
			}
		}
	}
	for i, sig := range w.Rec.Keys("at") {
		if _, ok := m.AccessTokens[sig]; ok {
			pr.AT = append(pr.AT, i+1)
		}
	}
	for i, sig := range w.Rec.Keys("rt") {
		_, err := m.GetRefreshTokenSession(ctx, sig, nil)
		if err == nil {
			pr.RTActive = append(pr.RTActive, i+1)
		} else if err == fosite.ErrInactiveToken {
			pr.RTInactive = append(pr.RTInactive, i+1)
		}
	}
	for i, sig := range w.Rec.Keys("dev") {
		if _, ok := m.DeviceAuths[sig]; ok {
			pr.Dev = append(pr.Dev, i+1)
		}
	}
	for i, u := range w.Rec.Keys("par") {
		if _, ok := m.PARSessions[u]; ok {
			pr.Par = append(pr.Par, i+1)
		}
	}
	pr.NJTI = len(m.BlacklistedJTIs)
	pr.NAT, pr.NRT, pr.NCode, pr.NPkce, pr.NOidc, pr.NPar, pr.NDev = len(m.AccessTokens), len(m.RefreshTokens), len(m.AuthorizeCodes), len(m.PKCES), len(m.IDSessions), len(m.PARSessions), len(m.DeviceAuths)
	return pr
}

// ---- device grant ------------------------------------------------------------------

func (w *World) doDevStart(p int, op Op) Obs {
	o := newObs()
	ctx := w.ctx(p)
	r := postReq("/device/auth")
	f := url.Values{}
	f.Set("client_id", op.Client)
	f.Set("scope", strings.Join(op.Scopes, " "))
	if len(op.Aud) > 0 {
		f.Set("audience", strings.Join(op.Aud, " "))
	}
	w.setAuth(r, f, op.Client, op.Auth)
	finishPost(r, f)
	dr, err := w.Provider.NewDeviceRequest(ctx, r)
	rec := httptest.NewRecorder()
	if err != nil {
		o.Res = errName(err)
		w.Provider.WriteAccessError(ctx, rec, dr, err)
		o.Status = rec.Code
		return o
	}
	for _, s := range op.Grant {
		if dr.GetRequestedScopes().Has(s) {
			dr.GrantScope(s)
		}
	}
	for _, a := range dr.GetRequestedAudience() {
		// as at the authorization endpoint: nil or ["*"] grants every requested audience, otherwise only the named ones
		if op.GAud == nil || len(op.GAud) == 1 && op.GAud[0] == "*" || contains(op.GAud, a) {
			dr.GrantAudience(a)
		}
	}
	resp, err := w.Provider.NewDeviceResponse(ctx, dr, w.session())
	if err != nil {
		o.Res = errName(err)
		w.Provider.WriteAccessError(ctx, rec, dr, err)
		o.Status = rec.Code
		return o
	}
	w.Provider.WriteDeviceResponse(ctx, rec, dr, resp)
	o.Status = rec.Code
	o.New["dev"] = w.deliver("dev", resp.GetDeviceCode())
	w.mu.Lock()
	w.DevOwner[o.New["dev"]] = op.Client
	w.mu.Unlock()
	w.UCs[sigOf(resp.GetDeviceCode())] = resp.GetUserCode()
	d := time.Duration(resp.GetExpiresIn()) * time.Second
	if d%Tick == 0 {
		o.ExpIn = int(d / Tick)
	} else {
		o.ExpIn = -2
	}
	return o
}

// doDevDecide plays the verification page of the application: it looks the request up by
// user code, checks the user code with the library's strategy and records the decision.
func (w *World) doDevDecide(p int, op Op) Obs {
	o := newObs()
	ctx := w.ctx(p)
	dsig := w.Rec.KeyOf("dev", op.Dev)
	uc, ok := w.UCs[dsig]
	if !ok {
		o.Res = "not_found"
		return o
	}
	strat := w.DevStrategy()
	usig, _ := strat.UserCodeSignature(ctx, uc)
	req, ok := w.Mem.DeviceAuths[usig]
	if !ok {
		o.Res = "not_found"
		return o
	}
	if err := strat.ValidateUserCode(ctx, req, uc); err != nil {
		o.Res = errName(err)
		return o
	}
	if op.Dec == "accept" || op.Dec == "accept_fresh" || op.Dec == "accept_user_later" {
		if op.Dec == "accept_fresh" {
			req.SetSession(w.session())
		}
		if op.Dec == "accept_user_later" { // the consent application extends the USER code (say, to let the user finish): the device code's own expiry stands
			req.GetSession().SetExpiresAt(fosite.UserCode, time.Now().UTC().Add(1000*Tick))
		}
		req.SetUserCodeState(fosite.UserCodeAccepted)
		if req.GetGrantedScopes().Has("openid") {
			_ = w.Mem.CreateOpenIDConnectSession(ctx, dsig, req)
		}
	} else {
		req.SetUserCodeState(fosite.UserCodeRejected)
	}
	return o
}

func (w *World) doDevPoll(p int, op Op) Obs {
	r := postReq("/token")
	f := url.Values{}
	f.Set("grant_type", "urn:ietf:params:oauth:grant-type:device_code")
	f.Set("device_code", w.tok("dev", op.Dev))
	if op.Forge != "" { // rebuilt from the signature alone (what the store holds)
		code := w.tok("dev", op.Dev)
		sig := code[strings.LastIndex(code, ".")+1:]
		switch op.Forge {
		case "sig_only":
			f.Set("device_code", "ory_dc_."+sig)
		default:
			f.Set("device_code", "ory_dc_!!!!."+sig)
		}
	}
	if op.Auth == "hdr_victim" { // the presenting public client in the header, the client that started the flow in the body
		r.SetBasicAuth(url.QueryEscape(op.Client), "")
		f.Set("client_id", w.DevOwner[op.Dev])
	} else {
		w.setAuth(r, f, op.Client, op.Auth)
	}
	finishPost(r, f)
	o, _, _ := w.tokenCall(p, r, false)
	return o
}

// ---- pushed authorization requests -------------------------------------------------

func (w *World) doPush(p int, op Op) Obs {
	o := newObs()
	ctx := w.ctx(p)
	r := postReq("/par")
	f := w.authorizeQuery(op)
	f.Set("state", GoodState+"-pushed")
	if op.Field == "request_uri" {
		f.Set("request_uri", w.tok("par", op.Par))
	}
	w.setAuth(r, f, op.Client, op.Auth)
	finishPost(r, f)
	ar, err := w.Provider.NewPushedAuthorizeRequest(ctx, r)
	rec := httptest.NewRecorder()
	if err != nil {
		o.Res = errName(err)
		w.Provider.WritePushedAuthorizeError(ctx, rec, ar, err)
		o.Status = rec.Code
		return o
	}
	resp, err := w.Provider.NewPushedAuthorizeResponse(ctx, ar, w.sess(Subject))
	if err != nil {
		o.Res = errName(err)
		w.Provider.WritePushedAuthorizeError(ctx, rec, ar, err)
		o.Status = rec.Code
		return o
	}
	w.Provider.WritePushedAuthorizeResponse(ctx, rec, ar, resp)
	o.Status = rec.Code
	o.New["par"] = w.deliver("par", resp.GetRequestURI())
	d := time.Duration(resp.GetExpiresIn()) * time.Second
	if d%Tick == 0 {
		o.ExpIn = int(d / Tick)
	} else {
		o.ExpIn = -2
	}
	return o
}

// doUsePar starts an authorization with a request_uri, optionally sending one conflicting
// query parameter (op.Field/op.Val) alongside. The parameters of the resulting request are
// reported in Note so the specification can check that the pushed values are authoritative.
func (w *World) doUsePar(p int, op Op) Obs {
	o := newObs()
	ctx := w.ctx(p)
	q := url.Values{}
	q.Set("client_id", op.Client)
	uri := w.tok("par", op.Par)
	switch op.Kind {
	case "foreign_prefix", "foreign_prefix_full":
		uri = "urn:example:other:" + strings.TrimPrefix(uri, w.Config.GetPushedAuthorizeRequestURIPrefix(ctx))
	case "unknown":
		uri = w.Config.GetPushedAuthorizeRequestURIPrefix(ctx) + "bm90LWEtcHVzaGVkLXJlcXVlc3QtMDEyMzQ1Njc4OQ"
	}
	if op.Kind != "absent" {
		q.Set("request_uri", uri)
	}
	if op.Kind == "absent" || op.Kind == "foreign_prefix_full" {
		// a complete, valid plain authorization request (without request_uri, or next to one that is not a pushed one)
		for k, v := range w.authorizeQuery(Op{Client: op.Client, RType: "code", Scopes: []string{"a"}, Redir: "sent"}) {
			q[k] = v
		}
	}
	switch op.Field {
	case "redirect_uri":
		q.Set("redirect_uri", RedirectOf[op.Client]+"/evil")
	case "response_type":
		q.Set("response_type", "token")
	case "scope":
		q.Set("scope", "a b offline openid")
	case "state":
		q.Set("state", "overridden-state-value")
	case "audience":
		q.Set("audience", AllAud[1])
	case "response_mode":
		q.Set("response_mode", "fragment")
	case "nonce": // parameters without a field of their own, read from the raw form by the handlers
		q.Set("nonce", "injected-nonce-0123456789")
	case "code_challenge":
		q.Set("code_challenge", "injected-challenge-0123456789-0123456789-0123456789")
		q.Set("code_challenge_method", "plain")
	}
	r := httptest.NewRequest("GET", "https://issuer.example/auth?"+q.Encode(), nil)
	ar, err := w.Provider.NewAuthorizeRequest(ctx, r)
	rec := httptest.NewRecorder()
	if err != nil {
		o.Res = errName(err)
		w.Provider.WriteAuthorizeError(ctx, rec, ar, err)
		o.Status = rec.Code
		return o
	}
	o.Note = fmt.Sprintf("%s|%s|%s|%s|%s|%s", ar.GetRedirectURI().String(), strings.Join(sortedCopy(ar.GetResponseTypes()), " "),
		strings.Join(sortedCopy(ar.GetRequestedScopes()), " "), ar.GetState(), strings.Join(sortedCopy(ar.GetRequestedAudience()), " "), string(ar.GetResponseMode()))
	if op.Kind == "own" { // the raw form of a request hydrated from a pushed one: the pushed nonce, no PKCE challenge
		o.Note += "|" + ar.GetRequestForm().Get("nonce") + "|" + ar.GetRequestForm().Get("code_challenge")
	}
	for _, s := range ar.GetRequestedScopes() {
		ar.GrantScope(s)
	}
	for _, a := range ar.GetRequestedAudience() {
		ar.GrantAudience(a)
	}
	resp, err := w.Provider.NewAuthorizeResponse(ctx, ar, w.sess(Subject))
	if err != nil {
		o.Res = errName(err)
		w.Provider.WriteAuthorizeError(ctx, rec, ar, err)
		o.Status = rec.Code
		return o
	}
	w.Provider.WriteAuthorizeResponse(ctx, rec, ar, resp)
	o.Status = rec.Code
	if c := resp.GetCode(); c != "" {
		id := w.deliver("code", c)
		w.codeOwner[id] = ar.GetClient().GetID()
		o.New["code"] = id
	}
	if t := resp.GetParameters().Get("access_token"); t != "" {
		o.New["at"] = w.deliver("at", t)
		o.ExpIn = expInTicks(resp.GetParameters().Get("expires_in"))
	}
	if t := resp.GetParameters().Get("id_token"); t != "" {
		w.IDTs = append(w.IDTs, t)
		o.IDT = true
	}
	return o
}

func (w *World) verifierOf(code int) string {
	w.mu.Lock()
	defer w.mu.Unlock()
	if v, ok := w.Verifier[code]; ok {
		return v
	}
	return verifierFor(900+code, "") // the code was obtained without PKCE: any well-formed verifier
}

// doJAuth authenticates client J with a private_key_jwt assertion carrying the given jti
// and asks for a client_credentials token.
func (w *World) doJAuth(p int, jti string) Obs {
	_, _, k2 := Keys()
	now := time.Now()
	assertion := signJWT("RS256", k2, "kid-j", map[string]interface{}{"iss": "J", "sub": "J", "aud": TokenURL, "exp": now.Add(Tick).Unix(), "iat": now.Unix(), "jti": jti})
	w.mu.Lock()
	w.Assertions = append(w.Assertions, assertion)
	w.mu.Unlock()
	req := postReq("/token")
	form := url.Values{"grant_type": {"client_credentials"}, "scope": {"a"},
		"client_assertion_type": {"urn:ietf:params:oauth:client-assertion-type:jwt-bearer"}, "client_assertion": {assertion}}
	finishPost(req, form)
	o, _, _ := w.tokenCall(p, req, true)
	return o
}
