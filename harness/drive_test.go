package harness

import (
	"bufio"
	"encoding/json"
	"fmt"
	"os"
	"strconv"
	"strings"
	"testing"
	"testing/synctest"
)

// TestDrive executes the histories in $VERIF_IN on the real code and writes the trace to
// $VERIF_OUT. $VERIF_SHARD = "i/n" selects every n-th history starting at i.
func TestDrive(t *testing.T) {
	in, out := os.Getenv("VERIF_IN"), os.Getenv("VERIF_OUT")
	if in == "" || out == "" {
		t.Skip("VERIF_IN / VERIF_OUT not set")
	}
	si, sn := 0, 1
	if s := os.Getenv("VERIF_SHARD"); s != "" {
		p := strings.Split(s, "/")
		si, _ = strconv.Atoi(p[0])
		sn, _ = strconv.Atoi(p[1])
	}
	hs, err := ReadHistories(in)
	if err != nil {
		t.Fatal(err)
	}
	Keys()
	f, err := os.Create(out)
	if err != nil {
		t.Fatal(err)
	}
	defer f.Close()
	bw := bufio.NewWriterSize(f, 1<<20)
	defer bw.Flush()
	enc := json.NewEncoder(bw)
	nops := 0
	for i, h := range hs {
		if i%sn != si {
			continue
		}
		var evs []Event
		synctest.Test(t, func(t *testing.T) { evs = RunHistory(h) })
		for _, e := range evs {
			if err := enc.Encode(e); err != nil {
				t.Fatal(err)
			}
		}
		nops += len(h.Ops)
	}
	fmt.Printf("DRIVE histories=%d ops=%d\n", len(hs), nops)
}

// TestSteps executes TLC-generated schedules ($VERIF_IN, one StepHistory per line).
func TestSteps(t *testing.T) {
	in, out := os.Getenv("VERIF_IN"), os.Getenv("VERIF_OUT")
	if in == "" || out == "" {
		t.Skip("VERIF_IN / VERIF_OUT not set")
	}
	si, sn := 0, 1
	if s := os.Getenv("VERIF_SHARD"); s != "" {
		p := strings.Split(s, "/")
		si, _ = strconv.Atoi(p[0])
		sn, _ = strconv.Atoi(p[1])
	}
	data, err := os.ReadFile(in)
	if err != nil {
		t.Fatal(err)
	}
	Keys()
	f, err := os.Create(out)
	if err != nil {
		t.Fatal(err)
	}
	defer f.Close()
	bw := bufio.NewWriterSize(f, 1<<20)
	defer bw.Flush()
	enc := json.NewEncoder(bw)
	n := 0
	for i, line := range strings.Split(string(data), "\n") {
		if strings.TrimSpace(line) == "" || i%sn != si {
			continue
		}
		var h StepHistory
		if err := json.Unmarshal([]byte(line), &h); err != nil {
			t.Fatalf("line %d: %v", i+1, err)
		}
		if h.H == 0 {
			h.H = i + 1
		}
		var evs []interface{}
		synctest.Test(t, func(t *testing.T) { evs = RunStepHistory(h) })
		for _, e := range evs {
			if err := enc.Encode(e); err != nil {
				t.Fatal(err)
			}
		}
		n++
	}
	fmt.Printf("STEPS histories=%d\n", n)
}
