package harness

import (
	"bufio"
	"encoding/json"
	"fmt"
	"os"
	"sort"
	"strings"
	"testing"
	"testing/synctest"

	"github.com/ory/fosite"
)

// StoreEventOut is one classified storage-interface call (C20: nothing handed to the storage
// layer, as a key or inside a stored request form, is a usable secret in cleartext).
type StoreEventOut struct {
	Scenario string   `json:"scenario"`
	Method   string   `json:"m"`
	Keys     []string `json:"keys"` // classes of the key arguments
	Form     []string `json:"form"` // classes of the stored request form values ("name=class")
}

func (w *World) classify(x string, assertions []string) string {
	if x == "" {
		return "empty"
	}
	for kind, m := range w.Tok {
		for key, tok := range m {
			if x == tok && kind != "par" {
				return "full:" + kind
			}
			if x == key {
				if kind == "par" {
					return "par_uri"
				}
				return "sig:" + kind
			}
		}
	}
	for dsig, uc := range w.UCs {
		if x == uc {
			return "full:usercode"
		}
		_ = dsig
	}
	for _, v := range w.Verifier {
		if x == v {
			return "secret:code_verifier"
		}
	}
	for c, sec := range ClientSecrets {
		if sec != "" && x == sec {
			return "secret:client_secret"
		}
		if x == c {
			return "client_id"
		}
	}
	if x == Password {
		return "secret:user_password"
	}
	for _, a := range assertions {
		if x == a {
			return "secret:client_assertion"
		}
	}
	if strings.HasPrefix(x, "jti-") {
		return "jti"
	}
	return "other"
}

// TestStorageEvents runs every flow with both credential transports and writes the classified
// storage events to $VERIF_OUT (validated by spec/StoreEvents.tla).
func TestStorageEvents(t *testing.T) {
	out := os.Getenv("VERIF_OUT")
	if out == "" {
		t.Skip("VERIF_OUT not set")
	}
	Keys()
	f, err := os.Create(out)
	if err != nil {
		t.Fatal(err)
	}
	defer f.Close()
	bw := bufio.NewWriter(f)
	defer bw.Flush()
	enc := json.NewEncoder(bw)
	n := 0
	full := []string{"openid", "offline", "a"}
	for _, at := range []string{"hmac", "jwt"} {
		for _, auth := range []string{"ok", "body"} {
			scenarios := map[string]func(w *World){
				"code_pkce": func(w *World) {
					w.Exec(1, Op{Op: "authorize", Client: "A", RType: "code", Scopes: full, Grant: full, Redir: "sent", Pkce: "S256"})
					w.Exec(1, Op{Op: "redeem", Client: "A", Auth: auth, Code: 1, Redir: "same", Ver: "wrong"})
					w.Exec(1, Op{Op: "redeem", Client: "A", Auth: auth, Code: 1, Redir: "same", Ver: "right"})
					w.Exec(1, Op{Op: "refresh", Client: "A", Auth: auth, Tok: 1})
					w.Exec(1, Op{Op: "introspect", Client: "A", Caller: "basic", Kind: "at", Tok: 2, Hint: "at"})
					w.Exec(1, Op{Op: "revoke", Client: "A", Auth: auth, Kind: "rt", Tok: 2, Hint: "rt"})
					w.Exec(1, Op{Op: "redeem", Client: "A", Auth: auth, Code: 1, Redir: "same", Ver: "right"})
				},
				"hybrid": func(w *World) {
					w.Exec(1, Op{Op: "authorize", Client: "A", RType: "code_idt_token", Scopes: full, Grant: full, Redir: "sent", Pkce: "none"})
					w.Exec(1, Op{Op: "redeem", Client: "A", Auth: auth, Code: 1, Redir: "same", Ver: "none"})
					w.Exec(1, Op{Op: "authorize", Client: "A", RType: "token", Scopes: full, Grant: full, Redir: "sent", Pkce: "none"})
				},
				"password": func(w *World) {
					w.Exec(1, Op{Op: "password", Client: "A", Auth: auth, User: "ok", Scopes: []string{"offline", "a"}})
					w.Exec(1, Op{Op: "refresh", Client: "A", Auth: auth, Tok: 1})
					w.Exec(1, Op{Op: "refresh", Client: "A", Auth: auth, Tok: 1})
					w.Exec(1, Op{Op: "ccreds", Client: "A", Auth: auth, Scopes: []string{"a"}})
				},
				"device": func(w *World) {
					w.Exec(1, Op{Op: "devstart", Client: "A", Auth: auth, Scopes: full, Grant: full})
					w.Exec(1, Op{Op: "devpoll", Client: "A", Auth: auth, Dev: 1})
					w.Exec(1, Op{Op: "devdecide", Dev: 1, Dec: "accept"})
					w.Exec(1, Op{Op: "devpoll", Client: "A", Auth: auth, Dev: 1})
					w.Exec(1, Op{Op: "devpoll", Client: "A", Auth: auth, Dev: 1})
				},
				"par": func(w *World) {
					w.Exec(1, Op{Op: "push", Client: "A", Auth: auth, RType: "code", Scopes: full, Redir: "sent", Field: "none"})
					w.Exec(1, Op{Op: "usepar", Client: "A", Kind: "own", Par: 1, Field: "none"})
					w.Exec(1, Op{Op: "redeem", Client: "A", Auth: auth, Code: 1, Redir: "same", Ver: "none"})
				},
				// a private_key_jwt client through the flows that store its request: the signed assertion must not be persisted
				"assertion_client": func(w *World) {
					w.Exec(1, Op{Op: "push", Client: "J", Auth: "assertion", RType: "code", Scopes: full, Redir: "sent", Field: "none"})
					w.Exec(1, Op{Op: "usepar", Client: "J", Kind: "own", Par: 1, Field: "none"})
					w.Exec(1, Op{Op: "redeem", Client: "J", Auth: "assertion", Code: 1, Redir: "same", Ver: "none"})
					w.Exec(1, Op{Op: "refresh", Client: "J", Auth: "assertion", Tok: 1})
					w.Exec(1, Op{Op: "devstart", Client: "J", Auth: "assertion", Scopes: full, Grant: full})
					w.Exec(1, Op{Op: "devdecide", Dev: 1, Dec: "accept"})
					w.Exec(1, Op{Op: "devpoll", Client: "J", Auth: "assertion", Dev: 1})
					w.Exec(1, Op{Op: "password", Client: "J", Auth: "assertion", User: "ok", Scopes: []string{"offline", "a"}})
					w.Exec(1, Op{Op: "ccreds", Client: "J", Auth: "assertion", Scopes: []string{"a"}})
					w.Exec(1, Op{Op: "revoke", Client: "J", Auth: "assertion", Kind: "rt", Tok: 2, Hint: "rt"})
				},
				// handler/verifiable: the nonce of a userinfo credential request is bound to the access token by the store
				"vc_nonce": func(w *World) {
					vcScopes := []string{"openid", "offline", "a", "userinfo_credential_draft_00"}
					w.Mem.Clients["A"].(*fosite.DefaultClient).Scopes = append(w.Mem.Clients["A"].(*fosite.DefaultClient).Scopes, "userinfo_credential_draft_00")
					w.Exec(1, Op{Op: "authorize", Client: "A", RType: "code", Scopes: vcScopes, Grant: vcScopes, Redir: "sent", Pkce: "none"})
					w.Exec(1, Op{Op: "redeem", Client: "A", Auth: auth, Code: 1, Redir: "same", Ver: "none"})
					w.Exec(1, Op{Op: "refresh", Client: "A", Auth: auth, Tok: 1})
				},
				"assertions": func(w *World) {
					w.Exec(1, Op{Op: "jauth", Val: "jti-a1"})
					w.Exec(1, Op{Op: "jbearer", Val: "jti-b1"})
				},
			}
			names := []string{}
			for k := range scenarios {
				names = append(names, k)
			}
			sort.Strings(names)
			for _, name := range names {
				run := scenarios[name]
				synctest.Test(t, func(t *testing.T) {
					cfg := DefaultCfg()
					cfg.AT = at
					cfg.RScopes = []string{}
					cfg.VC = name == "vc_nonce"
					w := NewWorld(cfg)
					w.Rec.Keep = true
					run(w)
					for _, ev := range w.Rec.TakeLog() {
						o := StoreEventOut{Scenario: fmt.Sprintf("%s/%s/%s", name, at, auth), Method: ev.Method, Keys: []string{}, Form: []string{}}
						for _, k := range ev.Keys {
							o.Keys = append(o.Keys, w.classify(k, w.Assertions))
						}
						for k, vs := range ev.Form {
							for _, v := range vs {
								c := w.classify(v, w.Assertions)
								for _, part := range strings.Fields(v) { // a secret embedded in a longer value
									if pc := w.classify(part, w.Assertions); strings.HasPrefix(pc, "secret:") || strings.HasPrefix(pc, "full:") {
										c = pc
									}
								}
								o.Form = append(o.Form, k+"="+c)
							}
						}
						sort.Strings(o.Form)
						if err := enc.Encode(o); err != nil {
							t.Fatal(err)
						}
						n++
					}
				})
			}
		}
	}
	fmt.Printf("EVENTS n=%d\n", n)
}
