package harness

import (
	"bytes"
	"context"
	"encoding/json"
	"fmt"
	"io"
	"math/rand"
	"net/http"
	"net/http/httptest"
	"net/url"
	"os"
	"strconv"
	"strings"
	"sync"
	"sync/atomic"
	"testing"
	"time"

	"github.com/go-jose/go-jose/v3"
	"github.com/hashicorp/go-retryablehttp"
	"golang.org/x/crypto/bcrypt"

	"github.com/ory/fosite"
	"github.com/ory/fosite/compose"
	"github.com/ory/fosite/storage"
)

// TestRace is the part of C19 that no TLA+ model can see: one provider and one reference
// store used by many goroutines at once, built with -race. It runs outside synctest (real
// scheduler), against the raw MemoryStore (no recording wrapper whose mutex would order the
// goroutines), once with a default-constructed Config and once with a fully populated one.
func TestRace(t *testing.T) {
	if os.Getenv("VERIF_RACE_ITERS") == "" {
		t.Skip("VERIF_RACE_ITERS not set")
	}
	iters, _ := strconv.Atoi(os.Getenv("VERIF_RACE_ITERS"))
	seed, _ := strconv.ParseInt(os.Getenv("VERIF_SEED"), 10, 64)
	rk, _, _ := Keys()
	hash, _ := bcrypt.GenerateFromPassword([]byte(ClientSecrets["A"]), 4)
	// phase "disjoint": goroutines share tokens (refresh / revoke / introspect race on them) but every
	// authorization code is redeemed by one goroutine only. phase "sharedcode": codes are shared too, so
	// the same code is redeemed by several goroutines at once (see DESIGN.md finding F6b).
	phase := os.Getenv("VERIF_RACE_PHASE")
	var ops int64
	const G = 8
	for _, mode := range []string{"default", "full"} {
		store := storage.NewMemoryStore()
		for _, id := range []string{"A", "P"} {
			c := newClient(id, id == "P")
			if id == "A" {
				c.Secret = hash
			}
			store.Clients[id] = c
		}
		store.Users[Subject] = storage.MemoryUserRelation{Username: Subject, Password: Password}
		var cfg *fosite.Config
		if mode == "default" {
			cfg = &fosite.Config{GlobalSecret: []byte("global-secret-0123456789-0123456789-0123456789")}
		} else {
			cfg = NewWorld(DefaultCfg()).Config
			cfg.ClientSecretsHasher = &fosite.BCrypt{Config: &fosite.Config{HashCost: 4}}
			cfg.TokenEndpointHandlers, cfg.AuthorizeEndpointHandlers = nil, nil
			cfg.TokenIntrospectionHandlers, cfg.RevocationHandlers = nil, nil
			cfg.PushedAuthorizeEndpointHandlers, cfg.DeviceEndpointHandlers = nil, nil
		}
		// two private_key_jwt clients whose keys live behind a jwks_uri, fetched by the real DefaultJWKSFetcherStrategy through an
		// in-memory transport: UG's location answers, UB's answers 404 (so every authentication of UB fetches again, concurrently)
		{
			_, _, k2 := Keys()
			good, _ := json.Marshal(&jose.JSONWebKeySet{Keys: []jose.JSONWebKey{{Key: &k2.PublicKey, KeyID: "kid-j", Use: "sig", Algorithm: "RS256"}}})
			hc := retryablehttp.NewClient()
			hc.Logger = nil
			hc.RetryMax = 0
			hc.HTTPClient = &http.Client{Transport: roundTrip(func(rq *http.Request) (*http.Response, error) {
				time.Sleep(2 * time.Millisecond)
				if strings.Contains(rq.URL.Path, "broken") {
					return &http.Response{StatusCode: 404, Header: http.Header{}, Body: io.NopCloser(strings.NewReader("not found")), Request: rq}, nil
				}
				return &http.Response{StatusCode: 200, Header: http.Header{"Content-Type": {"application/json"}}, Body: io.NopCloser(bytes.NewReader(good)), Request: rq}, nil
			})}
			cfg.JWKSFetcherStrategy = fosite.NewDefaultJWKSFetcherStrategy(fosite.JWKSFetcherWithHTTPClient(hc))
			cfg.TokenURL = TokenURL
			for id, uri := range map[string]string{"UG": "https://u.example/jwks.json", "UB": "https://u.example/broken.json"} {
				store.Clients[id] = &fosite.DefaultOpenIDConnectClient{DefaultClient: newClient(id, false), TokenEndpointAuthMethod: "private_key_jwt",
					TokenEndpointAuthSigningAlgorithm: "RS256", JSONWebKeysURI: uri}
			}
		}
		prov := compose.ComposeAllEnabled(cfg, store, rk)
		var mu sync.Mutex
		shared := map[string][]string{} // tokens other goroutines may also use
		put := func(kind, tok string) {
			mu.Lock()
			shared[kind] = append(shared[kind], tok)
			if len(shared[kind]) > 64 {
				shared[kind] = shared[kind][32:]
			}
			mu.Unlock()
		}
		pick := func(r *rand.Rand, kind string) string {
			mu.Lock()
			defer mu.Unlock()
			l := shared[kind]
			if len(l) == 0 {
				return ""
			}
			return l[r.Intn(len(l))]
		}
		done := make(chan struct{})
		var wg sync.WaitGroup
		for g := 0; g < G; g++ {
			wg.Add(1)
			go func(g int) {
				defer wg.Done()
				defer func() {
					if r := recover(); r != nil {
						fmt.Printf("RACE-HARNESS PANIC goroutine=%d: %v\n", g, r)
					}
				}()
				r := rand.New(rand.NewSource(seed*100 + int64(g)))
				ctx := context.Background()
				var own []string
				for i := 0; i < iters; i++ {
					atomic.AddInt64(&ops, 1)
					switch r.Intn(8) {
					case 7: // private_key_jwt with keys behind a jwks_uri (a location that answers / one that does not)
						_, _, k2 := Keys()
						id := []string{"UG", "UB", "UB"}[r.Intn(3)]
						now := time.Now()
						a := signJWT("RS256", k2, "kid-j", map[string]interface{}{"iss": id, "sub": id, "aud": TokenURL, "exp": now.Add(time.Hour).Unix(), "iat": now.Unix(),
							"jti": fmt.Sprintf("race-%s-%d-%d-%d", mode, seed, g, i)})
						req := postReq("/token")
						finishPost(req, url.Values{"grant_type": {"client_credentials"}, "scope": {"a"},
							"client_assertion_type": {"urn:ietf:params:oauth:client-assertion-type:jwt-bearer"}, "client_assertion": {a}})
						if ar, err := prov.NewAccessRequest(ctx, req, NewSess(Subject)); err == nil {
							ar.GrantScope("a")
							_, _ = prov.NewAccessResponse(ctx, ar)
						}
					case 0: // authorize (code or hybrid)
						q := url.Values{"client_id": {"A"}, "response_type": {[]string{"code", "code token"}[r.Intn(2)]}, "scope": {"openid offline a"},
							"state": {GoodState}, "nonce": {GoodNonce}, "redirect_uri": {RedirectOf["A"]}}
						req := httptest.NewRequest("GET", "https://issuer.example/auth?"+q.Encode(), nil)
						ar, err := prov.NewAuthorizeRequest(ctx, req)
						if err != nil {
							continue
						}
						for _, s := range ar.GetRequestedScopes() {
							ar.GrantScope(s)
						}
						resp, err := prov.NewAuthorizeResponse(ctx, ar, NewSess(Subject))
						if err != nil {
							continue
						}
						if phase == "sharedcode" {
							put("code", resp.GetCode())
						} else {
							own = append(own, resp.GetCode())
						}
						if t := resp.GetParameters().Get("access_token"); t != "" {
							put("at", t)
						}
					case 1, 2: // redeem or refresh a shared credential
						f := url.Values{}
						if r.Intn(2) == 0 {
							c := pick(r, "code")
							if phase != "sharedcode" {
								c = ""
								if len(own) > 0 {
									c, own = own[0], own[1:]
								}
							}
							if c == "" {
								continue
							}
							f.Set("grant_type", "authorization_code")
							f.Set("code", c)
							f.Set("redirect_uri", RedirectOf["A"])
						} else {
							rt := pick(r, "rt")
							if rt == "" {
								continue
							}
							f.Set("grant_type", "refresh_token")
							f.Set("refresh_token", rt)
						}
						req := postReq("/token")
						req.SetBasicAuth("A", ClientSecrets["A"])
						finishPost(req, f)
						ar, err := prov.NewAccessRequest(ctx, req, NewSess(Subject))
						if err != nil {
							continue
						}
						resp, err := prov.NewAccessResponse(ctx, ar)
						if err != nil {
							continue
						}
						put("at", resp.GetAccessToken())
						if rt, _ := resp.GetExtra("refresh_token").(string); rt != "" {
							put("rt", rt)
						}
					case 3: // introspect
						kind := []string{"at", "rt"}[r.Intn(2)]
						if tok := pick(r, kind); tok != "" {
							_, _, _ = prov.IntrospectToken(ctx, tok, fosite.AccessToken, NewSess(""))
						}
					case 4: // revoke
						kind := []string{"at", "rt"}[r.Intn(2)]
						if tok := pick(r, kind); tok != "" {
							req := postReq("/revoke")
							req.SetBasicAuth("A", ClientSecrets["A"])
							finishPost(req, url.Values{"token": {tok}})
							_ = prov.NewRevocationRequest(ctx, req)
						}
					case 6: // password grant with the library's plain DefaultSession carrying extra claims: its tokens join the shared pools
						req := postReq("/token")
						req.SetBasicAuth("A", ClientSecrets["A"])
						finishPost(req, url.Values{"grant_type": {"password"}, "scope": {"offline a"}, "username": {Subject}, "password": {Password}})
						sess := &fosite.DefaultSession{Subject: Subject, Username: Subject, Extra: map[string]interface{}{"tenant": "t1"}}
						ar, err := prov.NewAccessRequest(ctx, req, sess)
						if err != nil {
							continue
						}
						ar.GrantScope("offline")
						ar.GrantScope("a")
						resp, err := prov.NewAccessResponse(ctx, ar)
						if err != nil {
							continue
						}
						put("at", resp.GetAccessToken())
						if rt, _ := resp.GetExtra("refresh_token").(string); rt != "" {
							put("rt", rt)
						}
					case 5: // client credentials with scope + audience checks (lazy strategy defaults)
						req := postReq("/token")
						req.SetBasicAuth("A", ClientSecrets["A"])
						finishPost(req, url.Values{"grant_type": {"client_credentials"}, "scope": {"a"}, "audience": {AllAud[0]}})
						if ar, err := prov.NewAccessRequest(ctx, req, NewSess(Subject)); err == nil {
							ar.GrantScope("a")
							_, _ = prov.NewAccessResponse(ctx, ar)
						}
					}
				}
			}(g)
		}
		go func() { wg.Wait(); close(done) }()
		// watchdog: no operation started for 30 s while goroutines are still running = deadlock
		last, idle := atomic.LoadInt64(&ops), 0
	wait:
		for {
			select {
			case <-done:
				break wait
			case <-time.After(3 * time.Second):
				if cur := atomic.LoadInt64(&ops); cur != last {
					last, idle = cur, 0
				} else if idle++; idle >= 10 {
					fmt.Printf("RACE-HARNESS DEADLOCK mode=%s: no operation started for 30 s, goroutines did not finish\n", mode)
					break wait
				}
			}
		}
	}
	fmt.Printf("RACE-HARNESS ops=%d goroutines=%d modes=%s phase=%s\n", ops, G, strings.Join([]string{"default", "full"}, ","), phase)
}
