package harness

import (
	"encoding/base64"
	"encoding/json"
	"strings"
	"time"

	"github.com/ory/fosite"
	"github.com/ory/fosite/storage"

	"github.com/go-jose/go-jose/v3"
)

func init() {
	tableRunners["c07life"] = runC07Life
	bubbleKinds["c07life"] = true
}

func jwtPayload(tok string) map[string]interface{} {
	p := strings.Split(tok, ".")
	if len(p) != 3 {
		return nil
	}
	b, err := base64.RawURLEncoding.DecodeString(p[1])
	if err != nil {
		return nil
	}
	var m map[string]interface{}
	_ = json.Unmarshal(b, &m)
	return m
}

func runC07Life(rep *TReport, raw json.RawMessage) {
	var r struct {
		Flow       string
		OvGrant    string `json:"ov_grant"`
		OvKind     string `json:"ov_kind"`
		Val        int
		RTDefault  int    `json:"rt_default"`
		ATStrategy string `json:"at_strategy"`
		AT, RT, ID int
	}
	if err := json.Unmarshal(raw, &r); err != nil {
		panic(err)
	}
	cfg := DefaultCfg()
	cfg.AT, cfg.LAT, cfg.LIDT, cfg.LRT = r.ATStrategy, 3, 4, r.RTDefault
	cfg.RScopes = []string{}
	w := NewWorld(cfg)
	w.Rec.Keep = false
	d := time.Duration(r.Val) * Tick
	if r.Val < 0 {
		d = -1
	}
	ls := &fosite.ClientLifespanConfig{}
	switch r.OvGrant + "/" + r.OvKind {
	case "authorization_code/access":
		ls.AuthorizationCodeGrantAccessTokenLifespan = &d
	case "authorization_code/id":
		ls.AuthorizationCodeGrantIDTokenLifespan = &d
	case "authorization_code/refresh":
		ls.AuthorizationCodeGrantRefreshTokenLifespan = &d
	case "client_credentials/access":
		ls.ClientCredentialsGrantAccessTokenLifespan = &d
	case "implicit/access":
		ls.ImplicitGrantAccessTokenLifespan = &d
	case "implicit/id":
		ls.ImplicitGrantIDTokenLifespan = &d
	case "jwt_bearer/access":
		ls.JwtBearerGrantAccessTokenLifespan = &d
	case "password/access":
		ls.PasswordGrantAccessTokenLifespan = &d
	case "password/refresh":
		ls.PasswordGrantRefreshTokenLifespan = &d
	case "refresh_token/id":
		ls.RefreshTokenGrantIDTokenLifespan = &d
	case "refresh_token/access":
		ls.RefreshTokenGrantAccessTokenLifespan = &d
	case "refresh_token/refresh":
		ls.RefreshTokenGrantRefreshTokenLifespan = &d
	}
	base := w.Mem.Clients["A"].(*fosite.DefaultClient)
	w.Mem.Clients["A"] = &fosite.DefaultClientWithCustomTokenLifespans{DefaultClient: base, TokenLifespans: ls}
	full := []string{"openid", "offline", "a"}
	var o Obs
	nIDT := len(w.IDTs)
	switch r.Flow {
	case "authorization_code":
		w.Exec(1, Op{Op: "authorize", Client: "A", RType: "code", Scopes: full, Grant: full, Redir: "sent", Pkce: "none"})
		o = w.Exec(1, Op{Op: "redeem", Client: "A", Auth: "ok", Code: 1, Redir: "same", Ver: "none"})
	case "implicit":
		o = w.Exec(1, Op{Op: "authorize", Client: "A", RType: "idt_token", Scopes: full, Grant: full, Redir: "sent", Pkce: "none"})
	case "client_credentials":
		o = w.Exec(1, Op{Op: "ccreds", Client: "A", Auth: "ok", Scopes: []string{"a"}})
	case "jwt_bearer":
		_, _, k2 := Keys()
		w.Mem.IssuerPublicKeys["issuer-1"] = storage.IssuerPublicKeys{Issuer: "issuer-1", KeysBySub: map[string]storage.SubjectPublicKeys{
			"subject-1": {Subject: "subject-1", Keys: map[string]storage.PublicKeyScopes{
				"kid-1": {Key: &jose.JSONWebKey{Key: k2.Public(), Algorithm: "RS256", Use: "sig", KeyID: "kid-1"}, Scopes: []string{"a"}}}}}}
		o = w.doJWTBearer(1, BearerSpec{Iss: "issuer-1", Sub: "subject-1", Kid: "kid-1", Scopes: []string{"a"}, JTI: "jti-1", Client: "A"})
	case "password":
		o = w.Exec(1, Op{Op: "password", Client: "A", Auth: "ok", User: "ok", Scopes: []string{"offline", "a"}})
	case "refresh_token":
		w.Exec(1, Op{Op: "authorize", Client: "A", RType: "code", Scopes: full, Grant: full, Redir: "sent", Pkce: "none"})
		w.Exec(1, Op{Op: "redeem", Client: "A", Auth: "ok", Code: 1, Redir: "same", Ver: "none"})
		nIDT = len(w.IDTs)
		o = w.Exec(1, Op{Op: "refresh", Client: "A", Auth: "ok", Tok: 1})
	case "device_code":
		w.Exec(1, Op{Op: "devstart", Client: "A", Auth: "ok", Scopes: []string{"offline", "a"}, Grant: []string{"offline", "a"}})
		w.Exec(1, Op{Op: "devdecide", Dev: 1, Dec: "accept"})
		o = w.Exec(1, Op{Op: "devpoll", Client: "A", Auth: "ok", Dev: 1})
	}
	if o.Res != "ok" {
		rep.Mismatches = append(rep.Mismatches, TMismatch{Row: raw, Field: "flow_failed", Exp: "ok", Obs: o.Res})
		return
	}
	t0 := w.Now()
	atID, rtID := o.New["at"], o.New["rt"]
	rep.cmp(raw, "advertised_expires_in", r.AT, o.ExpIn, false)
	rep.cmp(raw, "refresh_token_issued", r.RT != 0, rtID > 0, false)
	if r.ID != 0 {
		if len(w.IDTs) <= nIDT {
			rep.cmp(raw, "id_token_issued", true, false, false)
		} else if pl := jwtPayload(w.IDTs[len(w.IDTs)-1]); pl != nil {
			exp, _ := pl["exp"].(float64)
			got := int(time.Unix(int64(exp), 0).Sub(w.T0) / Tick)
			rep.cmp(raw, "id_token_exp", t0+r.ID, got, false)
		}
	}
	if r.ATStrategy == "jwt" {
		if pl := jwtPayload(w.tok("at", atID)); pl != nil {
			exp, _ := pl["exp"].(float64)
			rep.cmp(raw, "jwt_access_token_exp_claim", t0+r.AT, int(time.Unix(int64(exp), 0).Sub(w.T0)/Tick), false)
		}
	}
	// walk the clock over both expiry instants and compare activity with the specified lifetimes
	activeAT := func(rel int) bool { return rel <= r.AT }
	activeRT := func(rel int) bool { return r.RT != 0 && (r.RT < 0 || rel <= r.RT) }
	last := 0
	for _, rel := range []int{0, 1, 2, 3, 4, 5, 6, 7, 12} {
		time.Sleep(time.Duration(rel-last) * Tick)
		last = rel
		at, rt := w.Probe()
		gotAT, gotRT := false, false
		for _, x := range at {
			if x.ID == atID {
				gotAT = true
				rep.cmp(raw, "introspected_exp", t0+r.AT, x.Exp, false)
			}
		}
		for _, x := range rt {
			if x.ID == rtID {
				gotRT = true
			}
		}
		rep.cmp(raw, "access_token_active_at_age_"+itoa(rel), activeAT(rel), gotAT, false)
		if rtID > 0 {
			rep.cmp(raw, "refresh_token_active_at_age_"+itoa(rel), activeRT(rel), gotRT, false)
		}
	}
	// a refresh token that introspection reports active must also be honoured by the token endpoint, and vice versa
	if rtID > 0 {
		o2 := w.Exec(1, Op{Op: "refresh", Client: "A", Auth: "ok", Tok: rtID})
		rep.cmp(raw, "refresh_at_age_12", activeRT(12), o2.Res == "ok", false)
	}
}

func itoa(i int) string {
	b, _ := json.Marshal(i)
	return string(b)
}
