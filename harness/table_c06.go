package harness

import (
	"context"
	"crypto/hmac"
	"crypto/sha256"
	"crypto/x509"
	"encoding/base64"
	"encoding/json"
	"fmt"
	"hash"
	"math/rand"
	"os"
	"strconv"
	"strings"
	"sync"
	"time"

	"github.com/go-jose/go-jose/v3"

	"github.com/ory/fosite"
	"github.com/ory/fosite/handler/oauth2"
	enigma "github.com/ory/fosite/token/hmac"
	"github.com/ory/fosite/token/jwt"
)

func init() {
	tableRunners["c06hmac"] = runC06Hmac
	tableRunners["c06jwt"] = runC06Jwt
	bubbleKinds["c06hmac"] = true
	bubbleKinds["c06jwt"] = true
}

var c06Secrets = map[string][]byte{
	"S1":      []byte("S1-0123456789abcdef0123456789abc" + "-tail-one"),
	"S1x":     []byte("S1-0123456789abcdef0123456789abc" + "-another-tail"),
	"S2":      []byte("S2-zyxwvutsrqponmlkjihgfedcba9876543210"),
	"S3":      []byte("S3-the-third-secret-of-at-least-32-bytes"),
	"SHORT":   []byte("only-thirty-one-bytes-long-....")[:31],
	"UNKNOWN": []byte("a-secret-this-server-never-had-configured-1"),
}

var (
	mintedMu sync.Mutex
	minted   = map[string]bool{}
)

// noteMinted records a freshly minted value; returns false if it was seen before.
func noteMinted(v string) bool {
	mintedMu.Lock()
	defer mintedMu.Unlock()
	if minted[v] {
		return false
	}
	minted[v] = true
	return true
}

var rawB64 = base64.RawURLEncoding

// splitCred splits "ory_xx_KEY.MAC" into prefix, decoded key, decoded mac.
func splitCred(tok string) (prefix string, key, mac []byte) {
	if strings.HasPrefix(tok, "ory_") && len(tok) > 7 && tok[6] == '_' {
		prefix, tok = tok[:7], tok[7:]
	}
	p := strings.SplitN(tok, ".", 2)
	key, _ = rawB64.DecodeString(p[0])
	if len(p) > 1 {
		mac, _ = rawB64.DecodeString(p[1])
	}
	return
}

func joinCred(prefix string, key, mac []byte) string {
	return prefix + rawB64.EncodeToString(key) + "." + rawB64.EncodeToString(mac)
}

func mutateCred(rnd *rand.Rand, mut, tok, other, kind string) (string, bool) {
	prefix, key, mac := splitCred(tok)
	_, okey, omac := splitCred(other)
	cp := func(b []byte) []byte { return append([]byte{}, b...) }
	switch mut {
	case "identity":
		return tok, true
	case "key_bitflip":
		k := cp(key)
		k[rnd.Intn(len(k))] ^= 1 << uint(rnd.Intn(8))
		return joinCred(prefix, k, mac), true
	case "mac_bitflip":
		m := cp(mac)
		m[rnd.Intn(len(m))] ^= 1 << uint(rnd.Intn(8))
		return joinCred(prefix, key, m), true
	case "key_truncate":
		return joinCred(prefix, key[:len(key)-1-rnd.Intn(3)], mac), true
	case "key_extend":
		return joinCred(prefix, append(cp(key), byte(rnd.Intn(256))), mac), true
	case "mac_truncate":
		return joinCred(prefix, key, mac[:len(mac)-1-rnd.Intn(3)]), true
	case "mac_extend":
		return joinCred(prefix, key, append(cp(mac), byte(rnd.Intn(256)))), true
	case "mac_of_other_token":
		return joinCred(prefix, key, omac), true
	case "key_of_other_token":
		return joinCred(prefix, okey, mac), true
	case "empty_key":
		return prefix + "." + rawB64.EncodeToString(mac), true
	case "empty_mac":
		return prefix + rawB64.EncodeToString(key) + ".", true
	case "no_separator":
		return prefix + rawB64.EncodeToString(key) + rawB64.EncodeToString(mac), true
	case "extra_separator":
		return tok + "." + rawB64.EncodeToString(mac[:4]), true
	case "std_alphabet":
		rest := tok[len(prefix):]
		alt := strings.NewReplacer("-", "+", "_", "/").Replace(rest)
		return prefix + alt, alt != rest
	case "padded":
		return prefix + rawB64.EncodeToString(key) + "=." + rawB64.EncodeToString(mac), true
	case "whitespace":
		return tok + " ", true
	case "foreign_secret":
		st := &enigma.HMACStrategy{Config: &fosite.Config{GlobalSecret: c06Secrets["UNKNOWN"]}}
		t, _, err := st.Generate(context.Background())
		if err != nil {
			panic(err)
		}
		return prefix + t, true
	case "prefix_removed":
		return tok[len(prefix):], prefix != ""
	case "prefix_other_kind":
		np := map[string]string{"ory_ac_": "ory_at_", "ory_at_": "ory_rt_", "ory_rt_": "ory_at_", "ory_dc_": "ory_at_"}[prefix]
		return np + tok[len(prefix):], prefix != ""
	case "prefix_altered":
		return "ory_zz_" + tok[len(prefix):], prefix != ""
	}
	panic("unknown mutation " + mut)
}

type c06Row struct {
	Kind, Mut, Life string
	Cfg             struct {
		Name, Global, Hash string
		Rotated            []string
	}
	Accept, Endpoint, Undet bool
	Entropy, Keymin         int
}

func tableN() int {
	n, _ := strconv.Atoi(os.Getenv("VERIF_N"))
	if n <= 0 {
		n = 4
	}
	return n
}

func runC06Hmac(rep *TReport, raw json.RawMessage) {
	var r c06Row
	if err := json.Unmarshal(raw, &r); err != nil {
		panic(err)
	}
	seed, _ := strconv.ParseInt(os.Getenv("VERIF_SEED"), 10, 64)
	h := int64(0)
	for _, c := range string(raw) {
		h = h*131 + int64(c)
	}
	rnd := rand.New(rand.NewSource(seed ^ h))
	for n := 0; n < tableN(); n++ {
		c06One(rep, raw, r, rnd)
	}
}

func c06One(rep *TReport, raw json.RawMessage, r c06Row, rnd *rand.Rand) {
	cfg := DefaultCfg()
	cfg.RScopes = []string{}
	if r.Life == "unlimited_refresh" {
		cfg.LRT = -1
	}
	w := NewWorld(cfg)
	w.Rec.Keep = false
	w.Config.GlobalSecret = c06Secrets["S1"]
	w.Config.TokenEntropy = r.Entropy
	keymin := r.Keymin
	if keymin == 0 {
		keymin = 32
	}
	full := []string{"openid", "offline", "a"}
	for i := 0; i < 4; i++ {
		w.Exec(1, Op{Op: "authorize", Client: "A", RType: "code", Scopes: full, Grant: full, Redir: "sent", Pkce: "none"})
	}
	w.Exec(1, Op{Op: "redeem", Client: "A", Auth: "ok", Code: 2, Redir: "same", Ver: "none"})
	w.Exec(1, Op{Op: "redeem", Client: "A", Auth: "ok", Code: 3, Redir: "same", Ver: "none"})
	for i := 1; i <= 2; i++ {
		w.Exec(1, Op{Op: "devstart", Client: "A", Auth: "ok", Scopes: []string{"offline", "a"}, Grant: []string{"offline", "a"}})
		w.Exec(1, Op{Op: "devdecide", Dev: i, Dec: "accept"})
	}
	pick := map[string][2]string{"code": {w.tok("code", 1), w.tok("code", 4)}, "at": {w.tok("at", 1), w.tok("at", 2)},
		"rt": {w.tok("rt", 1), w.tok("rt", 2)}, "dev": {w.tok("dev", 1), w.tok("dev", 2)}}
	for kind, l := range map[string]int{"code": 4, "at": 2, "rt": 2, "dev": 2} {
		for i := 1; i <= l; i++ {
			t := w.tok(kind, i)
			rep.Checks++
			if !noteMinted(t) {
				rep.Mismatches = append(rep.Mismatches, TMismatch{Row: raw, Field: "minted_value_repeats", Exp: "fresh", Obs: t})
			}
			_, key, _ := splitCred(t)
			if len(key) < keymin {
				rep.Mismatches = append(rep.Mismatches, TMismatch{Row: raw, Field: "entropy_below_configured", Exp: keymin, Obs: len(key)})
			}
		}
	}
	tok, other := pick[r.Kind][0], pick[r.Kind][1]
	mutated, ok := mutateCred(rnd, r.Mut, tok, other, r.Kind)
	if !ok {
		return
	}
	// the configuration at presentation time
	w.Config.GlobalSecret = c06Secrets[r.Cfg.Global]
	w.Config.RotatedGlobalSecrets = nil
	for _, s := range r.Cfg.Rotated {
		w.Config.RotatedGlobalSecrets = append(w.Config.RotatedGlobalSecrets, c06Secrets[s])
	}
	if r.Cfg.Hash == "sha256" {
		w.Config.HMACHasher = func() hash.Hash { return sha256.New() }
	}
	ctx := w.ctx(1)
	if !r.Undet {
		prefix, _, _ := splitCred(tok)
		err := (&enigma.HMACStrategy{Config: w.Config}).Validate(ctx, strings.TrimPrefix(mutated, prefix))
		rep.cmp(raw, "validate_accepts", r.Accept, err == nil, false)
	}
	before, _ := json.Marshal(w.Project())
	accepted := false
	switch r.Kind {
	case "code":
		w.Tok["code"]["__mut"] = mutated
		o := w.redeemRaw(mutated)
		accepted = o.Res == "ok"
	case "at":
		_, _, err := w.Provider.IntrospectToken(ctx, mutated, fosite.AccessToken, NewSess(""))
		accepted = err == nil
	case "rt":
		o := w.refreshRaw(mutated)
		accepted = o.Res == "ok"
	case "dev":
		o := w.devpollRaw(mutated)
		accepted = o.Res == "ok"
	}
	rep.cmp(raw, "endpoint_accepts_"+r.Kind, r.Endpoint, accepted, r.Undet)
	if !accepted {
		after, _ := json.Marshal(w.Project())
		rep.cmp(raw, "state_unchanged_after_refusal", string(before), string(after), false)
	}
}

func (w *World) redeemRaw(code string) Obs {
	r := postReq("/token")
	f := map[string][]string{"grant_type": {"authorization_code"}, "code": {code}, "redirect_uri": {RedirectOf["A"]}}
	w.setAuth(r, f, "A", "ok")
	finishPost(r, f)
	o, _, _ := w.tokenCall(1, r, false)
	return o
}
func (w *World) refreshRaw(rt string) Obs {
	r := postReq("/token")
	f := map[string][]string{"grant_type": {"refresh_token"}, "refresh_token": {rt}}
	w.setAuth(r, f, "A", "ok")
	finishPost(r, f)
	o, _, _ := w.tokenCall(1, r, false)
	return o
}
func (w *World) devpollRaw(dc string) Obs {
	r := postReq("/token")
	f := map[string][]string{"grant_type": {"urn:ietf:params:oauth:grant-type:device_code"}, "device_code": {dc}}
	w.setAuth(r, f, "A", "ok")
	finishPost(r, f)
	o, _, _ := w.tokenCall(1, r, false)
	return o
}

// ---- JWT access tokens ---------------------------------------------------------------

func b64json(v interface{}) string {
	b, _ := json.Marshal(v)
	return rawB64.EncodeToString(b)
}

func runC06Jwt(rep *TReport, raw json.RawMessage) {
	var r struct {
		Mut, Validator, Age, Scope, Sess string
		Accept                           bool
	}
	if err := json.Unmarshal(raw, &r); err != nil {
		panic(err)
	}
	cfg := DefaultCfg()
	cfg.AT = "jwt"
	w := NewWorld(cfg)
	w.Rec.Keep = false
	if r.Sess == "jwtsession" { // the library's own session type for JWT access tokens
		w.TokenSessFn = func(subject string) fosite.Session {
			return &oauth2.JWTSession{JWTClaims: &jwt.JWTClaims{Subject: subject, Issuer: Issuer, Extra: map[string]interface{}{}},
				JWTHeader: &jwt.Headers{Extra: map[string]interface{}{}}, Subject: subject, Username: subject}
		}
	}
	o1 := w.Exec(1, Op{Op: "ccreds", Client: "A", Auth: "ok", Scopes: []string{"a"}})
	o2 := w.Exec(1, Op{Op: "ccreds", Client: "B", Auth: "ok", Scopes: []string{"a", "b"}})
	tok, other := w.tok("at", o1.New["at"]), w.tok("at", o2.New["at"])
	p, op := strings.Split(tok, "."), strings.Split(other, ".")
	if len(p) != 3 {
		panic("not a JWT access token: " + tok)
	}
	rk, _, rk2 := Keys()
	payload := jwtPayload(tok)
	var hdr map[string]interface{}
	hb, _ := rawB64.DecodeString(p[0])
	_ = json.Unmarshal(hb, &hdr)
	mutated := tok
	switch r.Mut {
	case "identity":
	case "alg_none":
		hdr["alg"] = "none"
		mutated = b64json(hdr) + "." + p[1] + "."
	case "alg_none_signature_kept":
		hdr["alg"] = "none"
		mutated = b64json(hdr) + "." + p[1] + "." + p[2]
	case "hs256_with_public_key":
		hdr["alg"] = "HS256"
		der, _ := x509.MarshalPKIXPublicKey(&rk.PublicKey)
		signing := b64json(hdr) + "." + p[1]
		m := hmac.New(sha256.New, der)
		m.Write([]byte(signing))
		mutated = signing + "." + rawB64.EncodeToString(m.Sum(nil))
	case "signed_by_other_key":
		s, _ := jose.NewSigner(jose.SigningKey{Algorithm: jose.RS256, Key: rk2}, nil)
		pb, _ := rawB64.DecodeString(p[1])
		obj, _ := s.Sign(pb)
		mutated, _ = obj.CompactSerialize()
	case "payload_edited":
		payload["scp"] = []string{"a", "b", "admin"}
		payload["sub"] = "somebody-else"
		mutated = p[0] + "." + b64json(payload) + "." + p[2]
	case "header_edited_alg_rs384":
		hdr["alg"] = "RS384"
		mutated = b64json(hdr) + "." + p[1] + "." + p[2]
	case "signature_stripped":
		mutated = p[0] + "." + p[1] + "."
	case "signature_of_other_token":
		mutated = p[0] + "." + p[1] + "." + op[2]
	case "two_segments":
		mutated = p[0] + "." + p[1]
	case "four_segments":
		mutated = tok + "." + p[2]
	case "expired_claim_edited":
		payload["exp"] = 4102444800
		mutated = p[0] + "." + b64json(payload) + "." + p[2]
	case "garbage":
		mutated = "not.a.jwt"
	case "crit_string_payload_edited":
		hdr["crit"] = "exp"
		payload["scp"], payload["sub"] = []string{"a", "b", "admin"}, "somebody-else"
		mutated = b64json(hdr) + "." + b64json(payload) + "." + p[2]
	case "crit_string_alg_none":
		hdr["crit"], hdr["alg"] = "exp", "none"
		payload["scp"], payload["sub"] = []string{"a", "b", "admin"}, "somebody-else"
		mutated = b64json(hdr) + "." + b64json(payload) + "."
	case "crit_unknown_extension":
		hdr["crit"], hdr["x-ext"] = []string{"x-ext"}, true
		payload["sub"] = "somebody-else"
		mutated = b64json(hdr) + "." + b64json(payload) + "." + p[2]
	case "embedded_jwk_signed_by_other_key":
		s, _ := jose.NewSigner(jose.SigningKey{Algorithm: jose.RS256, Key: rk2}, &jose.SignerOptions{EmbedJWK: true})
		payload["sub"] = "somebody-else"
		pb, _ := json.Marshal(payload)
		obj, _ := s.Sign(pb)
		mutated, _ = obj.CompactSerialize()
	case "b64_false_payload_edited":
		hdr["b64"], hdr["crit"] = false, []string{"b64"}
		payload["sub"] = "somebody-else"
		mutated = b64json(hdr) + "." + b64json(payload) + "." + p[2]
	case "header_not_an_object":
		mutated = rawB64.EncodeToString([]byte(`["RS256"]`)) + "." + p[1] + "." + p[2]
	case "retired_key_after_rotation", "current_key_after_rotation": // decided below, after the server has seen the genuine tokens
	default:
		panic("unknown jwt mutation " + r.Mut)
	}
	// the server has seen (and accepted) the genuine tokens before the manipulated one arrives, as it would in production:
	// nothing a validation leaves behind may vouch for a different token later
	introspect := func(t string, scopes ...string) (fosite.AccessRequester, error) {
		_, ar, err := w.Provider.IntrospectToken(w.ctx(1), t, fosite.AccessToken, NewSess(""), scopes...)
		return ar, err
	}
	if r.Validator == "stateless" {
		c2 := *w.Config
		c2.TokenIntrospectionHandlers = fosite.TokenIntrospectionHandlers{&oauth2.StatelessJWTValidator{
			Signer: &jwt.DefaultSigner{GetPrivateKey: func(context.Context) (interface{}, error) { return w.SignKey, nil }}, Config: &c2}}
		sf := &fosite.Fosite{Store: w.Rec, Config: &c2}
		introspect = func(t string, scopes ...string) (fosite.AccessRequester, error) {
			_, ar, err := sf.IntrospectToken(w.ctx(1), t, fosite.AccessToken, &oauth2.JWTSession{}, scopes...)
			return ar, err
		}
	}
	for _, g := range []string{tok, other} {
		_, gerr := introspect(g)
		rep.cmp(raw, "genuine_jwt_accepted_first", true, gerr == nil, false)
	}
	if strings.HasSuffix(r.Mut, "_after_rotation") { // the signing key of the running server is replaced (no kid involved)
		w.SignKey = rk2
		if r.Mut == "current_key_after_rotation" {
			o3 := w.Exec(1, Op{Op: "ccreds", Client: "A", Auth: "ok", Scopes: []string{"a"}})
			mutated = w.tok("at", o3.New["at"])
			payload = jwtPayload(mutated)
		}
	}
	if r.Age == "expired" {
		time.Sleep(time.Duration(cfg.LAT)*Tick + time.Second)
	}
	scope := "a"
	if r.Scope == "not_covered" {
		scope = "b"
	}
	before, _ := json.Marshal(w.Project())
	ar, err := introspect(mutated, scope)
	rep.cmp(raw, "jwt_access_token_accepted", r.Accept, err == nil, false)
	after, _ := json.Marshal(w.Project())
	rep.cmp(raw, "state_unchanged", string(before), string(after), false)
	if err == nil && r.Accept { // what the validator reports is what was granted: client, subject, scope, expiry
		exp, _ := payload["exp"].(float64)
		got := fmt.Sprintf("%s|%s|%s|%d", ar.GetClient().GetID(), ar.GetSession().GetSubject(), strings.Join(sortedCopy(ar.GetGrantedScopes()), " "),
			ar.GetSession().GetExpiresAt(fosite.AccessToken).Unix())
		want := fmt.Sprintf("A|%s|a|%d", Subject, int64(exp))
		if r.Validator == "stateless" { // the access token carries no client_id claim unless the application's session adds one
			want = "|" + strings.SplitN(want, "|", 2)[1]
		}
		rep.cmp(raw, "introspected_grant", want, got, false)
	}
	_ = fmt.Sprint
}
