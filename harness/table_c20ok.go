package harness

import (
	"encoding/json"
	"net/http/httptest"
	"net/url"

	"github.com/ory/fosite"
)

// C20 "every response that can carry tokens, codes or errors is marked no-store/no-cache": the SUCCESSFUL responses of every
// writer (TblErrorWire.OkRows); the error responses are the rows of c20wire.
func init() { tableRunners["c20ok"] = runC20OK; bubbleKinds["c20ok"] = true }

func runC20OK(rep *TReport, raw json.RawMessage) {
	var r struct {
		Writer  string
		NoStore bool `json:"no_store"`
		Carries string
	}
	if err := json.Unmarshal(raw, &r); err != nil {
		panic(err)
	}
	w := NewWorld(DefaultCfg())
	w.Rec.Keep = false
	if base, ok := w.Mem.Clients["A"].(*fosite.DefaultClient); ok { // client A may choose its response mode
		w.Mem.Clients["A"] = &fosite.DefaultResponseModeClient{DefaultClient: base,
			ResponseModes: []fosite.ResponseModeType{fosite.ResponseModeQuery, fosite.ResponseModeFragment, fosite.ResponseModeFormPost}}
	}
	ctx := w.ctx(1)
	rec := httptest.NewRecorder()
	authorize := func(rtype, mode string) {
		q := w.authorizeQuery(Op{Client: "A", RType: rtype, Scopes: []string{"a"}, Redir: "sent"})
		if mode != "" {
			q.Set("response_mode", mode)
		}
		req := httptest.NewRequest("GET", "https://issuer.example/auth?"+q.Encode(), nil)
		ar, err := w.Provider.NewAuthorizeRequest(ctx, req)
		if err != nil {
			panic(err)
		}
		ar.GrantScope("a")
		resp, err := w.Provider.NewAuthorizeResponse(ctx, ar, w.sess(Subject))
		if err != nil {
			panic(err)
		}
		w.Provider.WriteAuthorizeResponse(ctx, rec, ar, resp)
	}
	switch r.Writer {
	case "access":
		req := postReq("/token")
		f := url.Values{"grant_type": {"client_credentials"}, "scope": {"a"}}
		w.setAuth(req, f, "A", "ok")
		finishPost(req, f)
		ar, err := w.Provider.NewAccessRequest(ctx, req, w.sess(Subject))
		if err != nil {
			panic(err)
		}
		ar.GrantScope("a")
		resp, err := w.Provider.NewAccessResponse(ctx, ar)
		if err != nil {
			panic(err)
		}
		w.Provider.WriteAccessResponse(ctx, rec, ar, resp)
	case "par":
		req := postReq("/par")
		f := url.Values{}
		for k, v := range w.authorizeQuery(Op{Client: "A", RType: "code", Scopes: []string{"a"}, Redir: "sent"}) {
			if k != "client_id" {
				f[k] = v
			}
		}
		w.setAuth(req, f, "A", "ok")
		finishPost(req, f)
		ar, err := w.Provider.NewPushedAuthorizeRequest(ctx, req)
		if err != nil {
			panic(err)
		}
		resp, err := w.Provider.NewPushedAuthorizeResponse(ctx, ar, w.sess(Subject))
		if err != nil {
			panic(err)
		}
		w.Provider.WritePushedAuthorizeResponse(ctx, rec, ar, resp)
	case "device":
		req := postReq("/device")
		f := url.Values{"client_id": {"P"}, "scope": {"a"}}
		finishPost(req, f)
		dr, err := w.Provider.NewDeviceRequest(ctx, req)
		if err != nil {
			panic(err)
		}
		resp, err := w.Provider.NewDeviceResponse(ctx, dr, w.sess(Subject))
		if err != nil {
			panic(err)
		}
		w.Provider.WriteDeviceResponse(ctx, rec, dr, resp)
	case "authorize_query":
		authorize("code", "")
	case "authorize_fragment":
		authorize("token", "")
	case "authorize_form_post":
		authorize("code", "form_post")
	case "authorize_form_post_token":
		authorize("token", "form_post")
	case "introspection_active", "introspection_inactive":
		o := w.Exec(1, Op{Op: "ccreds", Client: "A", Auth: "ok", Scopes: []string{"a"}})
		req := postReq("/introspect")
		tok := w.tok("at", o.New["at"])
		if r.Writer == "introspection_inactive" {
			tok = unknownToken
		}
		f := url.Values{"token": {tok}}
		req.SetBasicAuth("B", ClientSecrets["B"])
		finishPost(req, f)
		resp, err := w.Provider.NewIntrospectionRequest(ctx, req, w.sess(""))
		if err != nil && r.Writer == "introspection_active" {
			panic(err)
		}
		if err != nil {
			w.Provider.WriteIntrospectionError(ctx, rec, err)
		} else {
			w.Provider.WriteIntrospectionResponse(ctx, rec, resp)
		}
	default:
		panic("unknown writer " + r.Writer)
	}
	_ = fosite.ErrInvalidRequest
	got := rec.Header().Get("Cache-Control") == "no-store" && rec.Header().Get("Pragma") == "no-cache"
	rep.cmp(raw, "marked_no_store_no_cache", r.NoStore, got, false)
	rep.cmp(raw, "response_written", true, rec.Code >= 200 && rec.Code < 400, false)
}
