package harness

import (
	"context"
	"encoding/json"
	"html"
	"net/http/httptest"
	"net/url"
	"regexp"
	"strings"

	"github.com/ory/fosite"
)

func init() { tableRunners["c11"] = runC11 }

type tURI struct{ Scheme, Userinfo, Host, Port, Path, Query, Fragment string }

func (u tURI) String() string {
	s := ""
	if u.Scheme != "" {
		s = u.Scheme + "://"
	}
	return s + u.Userinfo + u.Host + u.Port + u.Path + u.Query + u.Fragment
}

var responseParams = map[string]bool{"code": true, "state": true, "scope": true, "error": true, "error_description": true, "error_hint": true,
	"error_debug": true, "access_token": true, "token_type": true, "expires_in": true, "id_token": true}

var formAction = regexp.MustCompile(`(?s)<form[^>]*action="([^"]*)"`)

// stripResponse removes the parameters the authorization endpoint adds (in the query, the
// fragment, or not at all for form_post) with plain string operations - deliberately not
// with net/url, which is what the code under test uses.
func stripResponse(target string, fragmentMode bool) string {
	if fragmentMode {
		if i := strings.Index(target, "#"); i >= 0 {
			target = target[:i]
		}
		return target
	}
	i := strings.Index(target, "?")
	if i < 0 {
		return target
	}
	base, q := target[:i], target[i+1:]
	keep := []string{}
	for _, kv := range strings.Split(q, "&") {
		k := kv
		if j := strings.Index(kv, "="); j >= 0 {
			k = kv[:j]
		}
		if !responseParams[k] {
			keep = append(keep, kv)
		}
	}
	if len(keep) == 0 {
		return base
	}
	return base + "?" + strings.Join(keep, "&")
}

// redirectTarget is where the recorded response sends the user agent: the Location header or the action of the form_post page.
func redirectTarget(rep *TReport, rec *httptest.ResponseRecorder, what string) string {
	target := rec.Header().Get("Location")
	if target == "" {
		if m := formAction.FindStringSubmatch(rec.Body.String()); m != nil {
			target = html.UnescapeString(m[1])
		}
	}
	if strings.Contains(target, "ZgotmplZ") { // html/template refused the scheme: the page posts nowhere
		rep.Notes = append(rep.Notes, "form_post page with sanitised action for "+what)
		target = ""
	}
	return target
}

// runC11Par: the request is pushed (with the first registered URI or without one) and the front-channel request that
// redeems the request_uri carries a redirect_uri of its own. Whatever the endpoint answers, a redirect goes to the URI
// fixed at the pushed-authorization endpoint.
func runC11Par(rep *TReport, raw json.RawMessage) {
	var r struct {
		Reg          []tURI
		Pushed       string
		FrontOmitted bool `json:"front_omitted"`
		Front        tURI
		RType        string
		TargetKnown  bool `json:"target_known"`
		Target       tURI
		CodeOK       bool `json:"code_ok"`
	}
	if err := json.Unmarshal(raw, &r); err != nil {
		panic(err)
	}
	w := NewWorld(DefaultCfg())
	w.Rec.Keep = false
	regs := []string{}
	for _, u := range r.Reg {
		regs = append(regs, u.String())
	}
	w.Mem.Clients["A"] = &fosite.DefaultResponseModeClient{
		DefaultClient: &fosite.DefaultClient{ID: "A", Secret: []byte("plain:" + ClientSecrets["A"]), RedirectURIs: regs,
			ResponseTypes: []string{"code", "token"}, GrantTypes: allGrantTypes, Scopes: []string{"a"}},
		ResponseModes: []fosite.ResponseModeType{fosite.ResponseModeQuery, fosite.ResponseModeFragment, fosite.ResponseModeFormPost},
	}
	ctx := context.Background()
	pf := url.Values{"response_type": {r.RType}, "scope": {"a"}, "state": {GoodState}}
	if r.Pushed == "first" {
		pf.Set("redirect_uri", r.Target.String())
	}
	preq := postReq("/par")
	preq.SetBasicAuth("A", ClientSecrets["A"])
	finishPost(preq, pf)
	par, perr := w.Provider.NewPushedAuthorizeRequest(ctx, preq)
	var presp fosite.PushedAuthorizeResponder
	if perr == nil {
		presp, perr = w.Provider.NewPushedAuthorizeResponse(ctx, par, NewSess(Subject))
	}
	rep.Checks++
	if perr != nil {
		if r.TargetKnown && r.CodeOK {
			rep.Notes = append(rep.Notes, "push refused for a registered redirect URI: "+r.Target.String()+": "+errName(perr))
		}
		return
	}
	q := url.Values{"client_id": {"A"}, "request_uri": {presp.GetRequestURI()}}
	if !r.FrontOmitted {
		q.Set("redirect_uri", r.Front.String())
	}
	req := httptest.NewRequest("GET", "https://issuer.example/auth?"+q.Encode(), nil)
	rec := httptest.NewRecorder()
	ar, err := w.Provider.NewAuthorizeRequest(ctx, req)
	if err != nil {
		w.Provider.WriteAuthorizeError(ctx, rec, ar, err)
	} else {
		ar.GrantScope("a")
		resp, err := w.Provider.NewAuthorizeResponse(ctx, ar, NewSess(Subject))
		if err != nil {
			w.Provider.WriteAuthorizeError(ctx, rec, ar, err)
		} else {
			w.Provider.WriteAuthorizeResponse(ctx, rec, ar, resp)
		}
	}
	target := redirectTarget(rep, rec, r.Front.String())
	rep.Checks++
	if target == "" {
		return
	}
	want := r.Target.String()
	base := stripResponse(target, r.RType == "token")
	if alt := stripResponse(target, r.RType != "token"); base != want && alt == want { // an error raised before the response mode is known
		base = alt
	}
	ok := base == want
	if !r.TargetKnown { // nothing was fixed at the pushed-authorization endpoint: at least a registered URI
		ok = false
		for _, g := range regs {
			ok = ok || g == base
		}
	}
	if !ok {
		rep.Mismatches = append(rep.Mismatches, TMismatch{Row: raw, Field: "par_redirect_to_other_than_pushed_uri", Exp: want, Obs: target})
	}
}

func runC11(rep *TReport, raw json.RawMessage) {
	var kind struct{ Par bool }
	if json.Unmarshal(raw, &kind) == nil && kind.Par {
		runC11Par(rep, raw)
		return
	}
	var r struct {
		Reg                    []tURI
		Omitted                bool
		Req                    tURI
		RType, Mode, Err       string
		Public                 bool // the request is made by a public client (which sends a PKCE challenge)
		Allowed, Undet, CodeOK bool `json:"-"`
		AllowedJ               bool `json:"allowed"`
		UndetJ                 bool `json:"undet"`
		CodeOKJ                bool `json:"code_ok"`
	}
	if err := json.Unmarshal(raw, &r); err != nil {
		panic(err)
	}
	w := NewWorld(DefaultCfg())
	w.Rec.Keep = false
	regs := []string{}
	for _, u := range r.Reg {
		regs = append(regs, u.String())
	}
	w.Mem.Clients["A"] = &fosite.DefaultResponseModeClient{
		DefaultClient: &fosite.DefaultClient{ID: "A", Secret: []byte("plain:" + ClientSecrets["A"]), RedirectURIs: regs, Public: r.Public,
			ResponseTypes: []string{"code", "token"}, GrantTypes: allGrantTypes, Scopes: []string{"a"}},
		ResponseModes: []fosite.ResponseModeType{fosite.ResponseModeQuery, fosite.ResponseModeFragment, fosite.ResponseModeFormPost},
	}
	q := url.Values{}
	q.Set("client_id", "A")
	if r.Public {
		q.Set("code_challenge", "E9Melhoa2OwvFrEMTJguCHaoeK1t8URWbuGJSstw-cM")
		q.Set("code_challenge_method", "S256")
	}
	q.Set("response_type", r.RType)
	q.Set("scope", "a")
	q.Set("state", GoodState)
	switch r.Err {
	case "scope":
		q.Set("scope", "not-registered")
	case "state":
		q.Set("state", "short")
	case "rtype":
		q.Set("response_type", "bogus")
	}
	requested := r.Req.String()
	if !r.Omitted {
		q.Set("redirect_uri", requested)
	} else if len(regs) == 1 {
		requested = regs[0]
	}
	if r.Mode != "default" {
		q.Set("response_mode", r.Mode)
	}
	ctx := context.Background()
	req := httptest.NewRequest("GET", "https://issuer.example/auth?"+q.Encode(), nil)
	rec := httptest.NewRecorder()
	ar, err := w.Provider.NewAuthorizeRequest(ctx, req)
	success := false
	if err != nil {
		w.Provider.WriteAuthorizeError(ctx, rec, ar, err)
	} else {
		ar.GrantScope("a")
		resp, err := w.Provider.NewAuthorizeResponse(ctx, ar, NewSess(Subject))
		if err != nil {
			w.Provider.WriteAuthorizeError(ctx, rec, ar, err)
		} else {
			w.Provider.WriteAuthorizeResponse(ctx, rec, ar, resp)
			success = true
		}
	}
	target := rec.Header().Get("Location")
	if target == "" {
		if m := formAction.FindStringSubmatch(rec.Body.String()); m != nil {
			target = html.UnescapeString(m[1])
		}
	}
	if strings.Contains(target, "ZgotmplZ") { // html/template refused the scheme: the page posts nowhere
		rep.Notes = append(rep.Notes, "form_post page with sanitised action for "+requested)
		target = ""
	}
	redirected := target != ""
	rep.Checks++
	if redirected {
		if !(r.AllowedJ || r.UndetJ) {
			rep.Mismatches = append(rep.Mismatches, TMismatch{Row: raw, Field: "redirect_to_unallowed_uri", Exp: "no redirect", Obs: target})
			return
		}
		fragMode := r.Mode == "fragment" || (r.Mode == "default" && r.RType == "token" && r.Err != "rtype")
		base := stripResponse(target, fragMode)
		if r.Mode == "default" && base != requested { // an error raised before the response mode is known falls back to the query
			if alt := stripResponse(target, !fragMode); alt == requested || alt == strings.TrimSuffix(requested, "#") {
				base = alt
			}
		}
		if r.Mode == "form_post" {
			base = target
		}
		rep.Checks++
		if base != requested && base != strings.TrimSuffix(requested, "#") { // a bare "#" (empty fragment) is dropped when the target is rebuilt
			rep.Mismatches = append(rep.Mismatches, TMismatch{Row: raw, Field: "redirect_target_differs", Exp: requested, Obs: target, Undet: r.UndetJ && !r.AllowedJ})
		}
		rep.Checks++
		if r.RType == "code" && !r.CodeOKJ && (strings.Contains(target, "code=") || strings.Contains(rec.Body.String(), `name="code"`)) {
			rep.Mismatches = append(rep.Mismatches, TMismatch{Row: raw, Field: "code_issued_over_insecure_http", Exp: "no code", Obs: target})
		}
	} else if r.AllowedJ && r.Err == "none" && !success {
		rep.Notes = append(rep.Notes, "allowed redirect refused: "+requested+" registered "+strings.Join(regs, " "))
	}
	// the pushed-authorization endpoint takes the same redirect_uri: it may accept it only if the authorization
	// endpoint may redirect there, and a plain-http target only on loopback / localhost hosts
	if r.Mode == "default" && r.Err == "none" {
		preq := postReq("/par")
		pf := url.Values{}
		for k, v := range q {
			if k != "client_id" {
				pf[k] = v
			}
		}
		if r.Public {
			pf.Set("client_id", "A")
		} else {
			preq.SetBasicAuth("A", ClientSecrets["A"])
		}
		finishPost(preq, pf)
		par, perr := w.Provider.NewPushedAuthorizeRequest(ctx, preq)
		if perr == nil {
			_, perr = w.Provider.NewPushedAuthorizeResponse(ctx, par, NewSess(Subject))
		}
		rep.Checks++
		if perr == nil && !((r.AllowedJ || r.UndetJ) && r.CodeOKJ) {
			rep.Mismatches = append(rep.Mismatches, TMismatch{Row: raw, Field: "par_accepts_unallowed_or_insecure_redirect", Exp: "refused", Obs: "request_uri issued for " + requested})
		}
	}
}
