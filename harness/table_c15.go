package harness

import (
	"bytes"
	"crypto/ecdsa"
	"crypto/elliptic"
	"crypto/rand"
	"crypto/rsa"
	"encoding/json"
	"fmt"
	"io"
	"net/http"
	"net/url"
	"strings"
	"sync"
	"time"

	"github.com/dgraph-io/ristretto"
	"github.com/go-jose/go-jose/v3"
	"github.com/hashicorp/go-retryablehttp"

	"github.com/ory/fosite"
	"github.com/ory/fosite/storage"
)

func init() {
	tableRunners["c15"] = runC15
	bubbleKinds["c15"] = true
}

var (
	thirdKeyOnce sync.Once
	thirdKey     *rsa.PrivateKey
	c15Counter   int
	c15Mu        sync.Mutex
)

func unregisteredKey() *rsa.PrivateKey {
	thirdKeyOnce.Do(func() {
		k, err := rsa.GenerateKey(rand.Reader, 2048)
		if err != nil {
			panic(err)
		}
		thirdKey = k
	})
	return thirdKey
}

var (
	staleKeyOnce sync.Once
	staleKey     *rsa.PrivateKey
)

// retiredKey is the key of the stale cached key set: a key nobody signs with any more
func retiredKey() *rsa.PrivateKey {
	staleKeyOnce.Do(func() {
		k, err := rsa.GenerateKey(rand.Reader, 2048)
		if err != nil {
			panic(err)
		}
		staleKey = k
	})
	return staleKey
}

func freshJTI() string {
	c15Mu.Lock()
	defer c15Mu.Unlock()
	c15Counter++
	return fmt.Sprintf("jti-%06d", c15Counter)
}

// signJWT builds a compact JWT with the given header algorithm; "none" yields an unsecured JWT.
func signJWT(alg string, key interface{}, kid string, claims map[string]interface{}) string {
	if alg == "none" {
		h := map[string]interface{}{"alg": "none", "typ": "JWT"}
		if kid != "" {
			h["kid"] = kid
		}
		return b64json(h) + "." + b64json(claims) + "."
	}
	// a key of the wrong family cannot sign under this algorithm at all: substitute an unregistered key of the right family
	// (such a combination can only be a row in which the signing key is not the registered one anyway)
	switch k := key.(type) {
	case *rsa.PrivateKey:
		if strings.HasPrefix(alg, "ES") {
			key = extraECKey("third")
		}
		_ = k
	case *ecdsa.PrivateKey:
		if strings.HasPrefix(alg, "RS") || strings.HasPrefix(alg, "PS") {
			key = unregisteredKey()
		}
	}
	opts := (&jose.SignerOptions{}).WithType("JWT")
	if kid != "" {
		opts = opts.WithHeader("kid", kid)
	}
	s, err := jose.NewSigner(jose.SigningKey{Algorithm: jose.SignatureAlgorithm(alg), Key: key}, opts)
	if err != nil {
		panic(err)
	}
	b, _ := json.Marshal(claims)
	obj, err := s.Sign(b)
	if err != nil {
		panic(err)
	}
	out, _ := obj.CompactSerialize()
	return out
}

func audClaim(kind string) interface{} {
	switch kind {
	case "token_url":
		return TokenURL
	case "other":
		return "https://somewhere.else/token"
	case "list_with_token_url":
		return []string{"https://somewhere.else/token", TokenURL}
	case "list_without":
		return []string{"https://somewhere.else/token", "https://third.example/"}
	case "child_path":
		return TokenURL + "/tenants/other"
	case "with_query":
		return TokenURL + "?tenant=other"
	case "empty_list":
		return []string{}
	case "list_child_path":
		return []string{"https://somewhere.else/token", TokenURL + "/"}
	}
	return nil
}

func runC15(rep *TReport, raw json.RawMessage) {
	var r struct {
		Tbl    string
		F      map[string]interface{}
		Accept bool
	}
	if err := json.Unmarshal(raw, &r); err != nil {
		panic(err)
	}
	f := func(k string) string { s, _ := r.F[k].(string); return s }
	fb := func(k string) bool { b, _ := r.F[k].(bool); return b }
	cfg := DefaultCfg()
	w := NewWorld(cfg)
	w.Rec.Keep = false
	rk, ek, rk2 := Keys()
	now := time.Now()
	var send func() Obs
	if r.Tbl == "CA" {
		regalg := f("regalg")
		var regKey, otherKey, thirdK interface{} = rk2, rk, unregisteredKey()
		var regPub interface{} = &rk2.PublicKey
		if regalg == "ES256" {
			regKey, regPub = ek, &ek.PublicKey
			otherKey, thirdK = extraECKey("other"), extraECKey("third")
		}
		if regalg == "PS256" { // same RSA keys, probabilistic signature scheme
			regKey, regPub = rk2, &rk2.PublicKey
		}
		base := newClient("J", f("method") == "none")
		base.RedirectURIs = []string{"https://j.example/cb"}
		base.Scopes = []string{"a"}
		base.Secret = []byte("plain:secret-of-J-secret-of-J-secret-of-J")
		jwks := &jose.JSONWebKeySet{Keys: []jose.JSONWebKey{{Key: regPub, KeyID: "kid-j", Use: "sig", Algorithm: regalg}}}
		oc := &fosite.DefaultOpenIDConnectClient{DefaultClient: base, TokenEndpointAuthMethod: f("method"), TokenEndpointAuthSigningAlgorithm: regalg, JSONWebKeys: jwks}
		if src := f("keysrc"); src != "inline" {
			// the keys live behind jwks_uri; the real DefaultJWKSFetcherStrategy fetches them through an in-memory transport.
			// uri_stale: the strategy's cache holds an older key set without the key (it was rotated in afterwards).
			oc.JSONWebKeys, oc.JSONWebKeysURI = nil, "https://j.example/jwks.json"
			stale := &jose.JSONWebKeySet{Keys: []jose.JSONWebKey{{Key: &retiredKey().PublicKey, KeyID: "kid-old", Use: "sig", Algorithm: "RS256"}}}
			fetches := 0
			hc := retryablehttp.NewClient()
			hc.Logger = nil
			hc.RetryMax = 0
			hc.HTTPClient = &http.Client{Transport: roundTrip(func(rq *http.Request) (*http.Response, error) {
				fetches++
				set := jwks
				if src == "uri_stale" && fetches == 1 {
					set = stale
				}
				b, _ := json.Marshal(set)
				return &http.Response{StatusCode: 200, Header: http.Header{"Content-Type": {"application/json"}}, Body: io.NopCloser(bytes.NewReader(b)), Request: rq}, nil
			})}
			cache, err := ristretto.NewCache(&ristretto.Config[string, *jose.JSONWebKeySet]{NumCounters: 1000, MaxCost: 100, BufferItems: 64,
				Cost: func(*jose.JSONWebKeySet) int64 { return 1 }})
			if err != nil {
				panic(err)
			}
			defer cache.Close()
			fs := fosite.NewDefaultJWKSFetcherStrategy(fosite.JWKSFetcherWithHTTPClient(hc), fosite.JWKSFetcherWithCache(cache))
			w.Config.JWKSFetcherStrategy = fs
			if src == "uri_stale" { // warm the cache with the stale set
				_, _ = fs.Resolve(w.ctx(1), oc.JSONWebKeysURI, false)
				cache.Wait()
			}
		}
		if f("method") == "plain_client" {
			w.Mem.Clients["J"] = base
		} else {
			w.Mem.Clients["J"] = oc
		}
		kbase := newClient("K", false)
		kbase.RedirectURIs = []string{"https://k.example/cb"}
		w.Mem.Clients["K"] = &fosite.DefaultOpenIDConnectClient{DefaultClient: kbase, TokenEndpointAuthMethod: "private_key_jwt",
			TokenEndpointAuthSigningAlgorithm: "RS256",
			JSONWebKeys:                       &jose.JSONWebKeySet{Keys: []jose.JSONWebKey{{Key: &rk.PublicKey, KeyID: "kid-k", Use: "sig", Algorithm: "RS256"}}}}
		claims := map[string]interface{}{}
		switch f("iss") {
		case "client":
			claims["iss"] = "J"
		case "other":
			claims["iss"] = "K"
		}
		switch f("sub") {
		case "client":
			claims["sub"] = "J"
		case "other":
			claims["sub"] = "K"
		}
		if a := audClaim(f("aud")); a != nil {
			claims["aud"] = a
		}
		switch f("exp") {
		case "future":
			claims["exp"] = now.Add(Tick).Unix()
		case "past":
			claims["exp"] = now.Add(-Tick).Unix()
		case "string":
			claims["exp"] = "tomorrow"
		case "future_frac":
			claims["exp"] = float64(now.Add(Tick).Unix()) + 0.5
		case "past_frac":
			claims["exp"] = float64(now.Add(-Tick).Unix()) + 0.5
		case "just_past":
			claims["exp"] = now.Add(-time.Second).Unix()
		}
		if f("jti") == "fresh" {
			claims["jti"] = freshJTI()
		}
		var key interface{}
		switch f("key") {
		case "registered":
			key = regKey
		case "other_client":
			key = otherKey
		default:
			key = thirdK
		}
		alg := regalg
		switch f("alg") {
		case "other_asymmetric":
			if regalg == "RS256" || regalg == "PS256" {
				alg, key = "ES256", ek
			} else {
				alg = "RS256"
				if f("key") == "registered" {
					key = rk2
				}
			}
		case "same_family_other": // the same (registered or other) key under another algorithm of its family
			switch regalg {
			case "RS256":
				alg = "PS256"
			case "PS256":
				alg = "RS256"
			}
		case "HS256":
			alg, key = "HS256", []byte("secret-of-J-secret-of-J-secret-of-J")
		case "none":
			alg = "none"
		}
		if _, isRSA := key.(*rsa.PrivateKey); alg == "ES256" && isRSA {
			key = extraECKey("third")
		}
		kid := map[string]string{"right": "kid-j", "absent": "", "unknown": "no-such-kid"}[f("kid")]
		assertion := signJWT(alg, key, kid, claims)
		send = func() Obs {
			req := postReq("/token")
			form := url.Values{"grant_type": {"client_credentials"}, "scope": {"a"},
				"client_assertion_type": {"urn:ietf:params:oauth:client-assertion-type:jwt-bearer"}, "client_assertion": {assertion}}
			switch f("form") {
			case "empty_assertion":
				form.Set("client_assertion", "")
			case "unknown_type":
				form.Set("client_assertion_type", "urn:ietf:params:oauth:client-assertion-type:saml2-bearer")
			case "with_other_client_id":
				form.Set("client_id", "K")
			}
			finishPost(req, form)
			o, _, _ := w.tokenCall(1, req, true)
			return o
		}
	} else {
		w.Config.GrantTypeJWTBearerIssuedDateOptional = fb("iatopt")
		w.Config.GrantTypeJWTBearerIDOptional = fb("jtiopt")
		reg := func(iss, sub, kid string, pub interface{}) {
			w.Mem.IssuerPublicKeys[iss] = storage.IssuerPublicKeys{Issuer: iss, KeysBySub: map[string]storage.SubjectPublicKeys{
				sub: {Subject: sub, Keys: map[string]storage.PublicKeyScopes{kid: {Key: &jose.JSONWebKey{Key: pub, Algorithm: "RS256", Use: "sig", KeyID: kid}, Scopes: []string{"a"}}}}}}
		}
		reg("iss-1", "sub-1", "kid-1", &rk2.PublicKey)
		reg("iss-2", "sub-2", "kid-2", &rk.PublicKey)
		claims := map[string]interface{}{}
		switch f("who") {
		case "registered":
			claims["iss"], claims["sub"] = "iss-1", "sub-1"
		case "other_subject":
			claims["iss"], claims["sub"] = "iss-1", "sub-9"
		case "no_iss":
			claims["sub"] = "sub-1"
		case "no_sub":
			claims["iss"] = "iss-1"
		}
		if a := audClaim(f("aud")); a != nil {
			claims["aud"] = a
		}
		switch f("exp") {
		case "future":
			claims["exp"] = now.Add(Tick).Unix()
		case "past":
			claims["exp"] = now.Add(-Tick).Unix()
		case "beyond_max":
			claims["exp"] = now.Add(40 * 24 * time.Hour).Unix()
		case "future_frac":
			claims["exp"] = float64(now.Add(Tick).Unix()) + 0.5
		case "past_frac":
			claims["exp"] = float64(now.Add(-Tick).Unix()) + 0.5
		case "just_past":
			claims["exp"] = now.Add(-time.Second).Unix()
		}
		switch f("nbf") {
		case "past":
			claims["nbf"] = now.Add(-Tick).Unix()
		case "future":
			claims["nbf"] = now.Add(Tick / 2).Unix()
		case "just_future":
			claims["nbf"] = now.Add(2 * time.Second).Unix()
		}
		if f("iat") == "present" {
			claims["iat"] = now.Unix()
			if strings.Contains(f("exp"), "past") { // an assertion that expired was issued before it expired
				claims["iat"] = now.Add(-2 * Tick).Unix()
			}
		}
		if f("jti") == "fresh" {
			claims["jti"] = freshJTI()
		}
		var key interface{} = rk2
		switch f("key") {
		case "other_issuer":
			key = rk
		case "unregistered":
			key = unregisteredKey()
		}
		kid := map[string]string{"right": "kid-1", "absent": "", "unknown": "no-such-kid"}[f("kid")]
		assertion := signJWT("RS256", key, kid, claims)
		send = func() Obs {
			spec := BearerSpec{Raw: assertion}
			switch f("scope") {
			case "covered":
				spec.Scopes = []string{"a"}
			case "not_covered":
				spec.Scopes = []string{"zz"}
			case "key_scopeless", "key_scopeless_none": // the key's registration names no scope
				ks := w.Mem.IssuerPublicKeys["iss-1"].KeysBySub["sub-1"].Keys["kid-1"]
				ks.Scopes = nil
				w.Mem.IssuerPublicKeys["iss-1"].KeysBySub["sub-1"].Keys["kid-1"] = ks
				if f("scope") == "key_scopeless" {
					spec.Scopes = []string{"a"}
				}
			}
			switch f("client") {
			case "authenticated":
				spec.Client = "A"
			case "authenticated_no_grant": // client B authenticates but is not registered for the jwt-bearer grant
				spec.Client = "B"
				c := w.Mem.Clients["B"].(*fosite.DefaultClient)
				gts := []string{}
				for _, g := range c.GrantTypes {
					if g != "urn:ietf:params:oauth:grant-type:jwt-bearer" {
						gts = append(gts, g)
					}
				}
				c.GrantTypes = gts
			}
			switch f("form") {
			case "empty_assertion":
				spec.Raw = " " // signBearer passes a raw assertion through; the form carries an empty value
				spec.EmptyAssertion = true
			case "garbage_assertion":
				spec.Raw = "this-is-not-a-jwt"
			}
			return w.doJWTBearer(1, spec)
		}
	}
	o := send()
	rep.cmp(raw, "accepted", r.Accept, o.Res == "ok", false)
	if o.Res == "ok" && f("jti") == "fresh" {
		o2 := send()
		rep.cmp(raw, "second_presentation_refused", true, o2.Res != "ok", false)
	}
	if o.Res != "ok" {
		rep.cmp(raw, "tokens_on_refusal", 0, o.New["at"]+o.New["rt"], false)
	}
}

func extraECKey(name string) *ecdsa.PrivateKey {
	ecKeysMu.Lock()
	defer ecKeysMu.Unlock()
	if k, ok := ecKeys["p256-"+name]; ok {
		return k
	}
	k, err := ecdsa.GenerateKey(elliptic.P256(), rand.Reader)
	if err != nil {
		panic(err)
	}
	ecKeys["p256-"+name] = k
	return k
}
