package harness

import (
	"bufio"
	"context"
	"encoding/json"
	"errors"
	"fmt"
	"os"
	"runtime"
	"sort"
	"strconv"
	"strings"
	"sync"
	"sync/atomic"
	"testing"
	"time"

	"github.com/ory/fosite"
	"github.com/ory/fosite/storage"
)

// C19, "every individual store operation takes effect atomically": free-running goroutines call the
// reference store directly on shared keys; every call is logged as a call event and a return event,
// ordered by one atomic counter (the call number is taken before the method is entered, the return
// number after it has returned, so the interval contains the execution). StoreLin.tla then looks for
// a linearization: every critical section of every call takes effect at one instant between its call
// and its return, in program order, and the logged result is the one the sequential store gives there.

type LinOp struct {
	M string `json:"m"`
	K int    `json:"k"` // key (signature / code / request_uri / jti number)
	R int    `json:"r"` // request id number
}

type LinEvent struct {
	Ev  string `json:"ev"` // reset | call | ret
	H   int    `json:"h"`
	Scn string `json:"scn"`
	P   int    `json:"p"`
	M   string `json:"m"`
	K   int    `json:"k"`
	R   int    `json:"r"`
	Res string `json:"res"`
	seq int64
}

type linScenario struct {
	name  string
	setup []LinOp
	procs [][]LinOp
}

func linReq(r int) *fosite.Request {
	return &fosite.Request{ID: "rid-" + strconv.Itoa(r), Client: &fosite.DefaultClient{ID: "A"}, Session: NewSess(Subject), RequestedAt: time.Now()}
}

func linRes(err error) string {
	switch {
	case err == nil:
		return "ok"
	case errors.Is(err, fosite.ErrNotFound):
		return "not_found"
	case errors.Is(err, fosite.ErrInactiveToken):
		return "inactive"
	case errors.Is(err, fosite.ErrInvalidatedAuthorizeCode):
		return "invalidated"
	case errors.Is(err, fosite.ErrJTIKnown):
		return "known"
	}
	return "error:" + err.Error()
}

func linExec(s *storage.MemoryStore, op LinOp) string {
	ctx := context.Background()
	key := "sig-" + strconv.Itoa(op.K)
	rid := "rid-" + strconv.Itoa(op.R)
	far := time.Now().Add(time.Hour)
	switch op.M {
	case "SetJTI":
		return linRes(s.SetClientAssertionJWT(ctx, key, far))
	case "MarkJWT":
		return linRes(s.MarkJWTUsedForTime(ctx, key, far))
	case "JTIValid":
		return linRes(s.ClientAssertionJWTValid(ctx, key))
	case "IsJWTUsed":
		used, err := s.IsJWTUsed(ctx, key)
		if err != nil {
			return linRes(err)
		}
		if used {
			return "known"
		}
		return "ok"
	case "CreateCode":
		return linRes(s.CreateAuthorizeCodeSession(ctx, key, linReq(op.R)))
	case "GetCode":
		_, err := s.GetAuthorizeCodeSession(ctx, key, nil)
		return linRes(err)
	case "InvalidateCode":
		return linRes(s.InvalidateAuthorizeCodeSession(ctx, key))
	case "CreateAT":
		return linRes(s.CreateAccessTokenSession(ctx, key, linReq(op.R)))
	case "GetAT":
		_, err := s.GetAccessTokenSession(ctx, key, nil)
		return linRes(err)
	case "DeleteAT":
		return linRes(s.DeleteAccessTokenSession(ctx, key))
	case "RevokeAT":
		return linRes(s.RevokeAccessToken(ctx, rid))
	case "CreateRT":
		return linRes(s.CreateRefreshTokenSession(ctx, key, "at-of-"+key, linReq(op.R)))
	case "GetRT":
		_, err := s.GetRefreshTokenSession(ctx, key, nil)
		return linRes(err)
	case "DeleteRT":
		return linRes(s.DeleteRefreshTokenSession(ctx, key))
	case "RevokeRT":
		return linRes(s.RevokeRefreshToken(ctx, rid))
	case "RotateRT":
		return linRes(s.RotateRefreshToken(ctx, rid, key))
	case "CreatePAR":
		return linRes(s.CreatePARSession(ctx, key, &fosite.AuthorizeRequest{Request: *linReq(op.R)}))
	case "GetPAR":
		_, err := s.GetPARSession(ctx, key)
		return linRes(err)
	case "DeletePAR":
		return linRes(s.DeletePARSession(ctx, key))
	case "CreatePKCE":
		return linRes(s.CreatePKCERequestSession(ctx, key, linReq(op.R)))
	case "GetPKCE":
		_, err := s.GetPKCERequestSession(ctx, key, nil)
		return linRes(err)
	case "DeletePKCE":
		return linRes(s.DeletePKCERequestSession(ctx, key))
	case "CreateOIDC":
		return linRes(s.CreateOpenIDConnectSession(ctx, key, linReq(op.R)))
	case "GetOIDC":
		_, err := s.GetOpenIDConnectSession(ctx, key, nil)
		return linRes(err)
	case "DeleteOIDC":
		return linRes(s.DeleteOpenIDConnectSession(ctx, key))
	case "CreateDev":
		return linRes(s.CreateDeviceAuthSession(ctx, key, "user-"+key, &fosite.DeviceRequest{Request: *linReq(op.R)}))
	case "GetDev":
		_, err := s.GetDeviceCodeSession(ctx, key, nil)
		return linRes(err)
	case "InvalidateDev":
		return linRes(s.InvalidateDeviceCodeSession(ctx, key))
	}
	panic("unknown store op " + op.M)
}

func o(m string, k, r int) LinOp { return LinOp{M: m, K: k, R: r} }

func linScenarios() []linScenario {
	return []linScenario{
		{"jti-set-x3", nil, [][]LinOp{{o("SetJTI", 1, 0)}, {o("SetJTI", 1, 0)}, {o("SetJTI", 1, 0), o("JTIValid", 1, 0)}}},
		{"jti-mixed", nil, [][]LinOp{{o("JTIValid", 1, 0), o("SetJTI", 1, 0)}, {o("MarkJWT", 1, 0), o("IsJWTUsed", 1, 0)}, {o("IsJWTUsed", 1, 0), o("MarkJWT", 1, 0)}}},
		{"jti-two-keys", nil, [][]LinOp{{o("SetJTI", 1, 0), o("SetJTI", 2, 0)}, {o("SetJTI", 2, 0), o("SetJTI", 1, 0)}}},
		{"code-invalidate", []LinOp{o("CreateCode", 1, 1)}, [][]LinOp{{o("GetCode", 1, 0), o("InvalidateCode", 1, 0)}, {o("InvalidateCode", 1, 0), o("GetCode", 1, 0)}, {o("GetCode", 1, 0), o("GetCode", 1, 0)}}},
		{"code-create", nil, [][]LinOp{{o("CreateCode", 1, 1), o("GetCode", 1, 0)}, {o("InvalidateCode", 1, 0), o("GetCode", 1, 0)}}},
		{"rt-rotate", []LinOp{o("CreateAT", 1, 1), o("CreateRT", 1, 1)}, [][]LinOp{{o("RotateRT", 1, 1), o("GetRT", 1, 0)}, {o("GetRT", 1, 0), o("GetAT", 1, 0)}, {o("CreateAT", 2, 1), o("CreateRT", 2, 1)}}},
		{"rt-rotate-x2", []LinOp{o("CreateAT", 1, 1), o("CreateRT", 1, 1)}, [][]LinOp{{o("RotateRT", 1, 1), o("CreateRT", 2, 1)}, {o("RotateRT", 1, 1), o("CreateRT", 3, 1)}, {o("GetRT", 2, 0), o("GetRT", 3, 0)}}},
		{"revoke-both", []LinOp{o("CreateAT", 1, 1), o("CreateRT", 1, 1), o("CreateAT", 2, 2)}, [][]LinOp{{o("RevokeRT", 0, 1), o("GetRT", 1, 0)}, {o("RevokeAT", 0, 1), o("GetAT", 1, 0)}, {o("GetAT", 2, 0), o("GetRT", 1, 0)}}},
		{"rt-delete-revoke", []LinOp{o("CreateRT", 1, 1)}, [][]LinOp{{o("DeleteRT", 1, 0), o("GetRT", 1, 0)}, {o("RevokeRT", 0, 1), o("GetRT", 1, 0)}, {o("GetRT", 1, 0)}}},
		{"at-hybrid-revoke", []LinOp{o("CreateAT", 1, 1), o("CreateAT", 2, 1)}, [][]LinOp{{o("RevokeAT", 0, 1)}, {o("GetAT", 1, 0), o("GetAT", 2, 0)}, {o("DeleteAT", 2, 0), o("GetAT", 2, 0)}}},
		{"par-once", []LinOp{o("CreatePAR", 1, 1)}, [][]LinOp{{o("GetPAR", 1, 0), o("DeletePAR", 1, 0)}, {o("GetPAR", 1, 0), o("DeletePAR", 1, 0)}, {o("GetPAR", 1, 0)}}},
		{"pkce-oidc", []LinOp{o("CreatePKCE", 1, 1), o("CreateOIDC", 1, 1)}, [][]LinOp{{o("GetPKCE", 1, 0), o("DeletePKCE", 1, 0)}, {o("DeleteOIDC", 1, 0), o("GetOIDC", 1, 0)}, {o("GetOIDC", 1, 0), o("GetPKCE", 1, 0)}}},
		// every pair of methods that takes two mutexes runs against each other (a lock-order inversion deadlocks here)
		{"create-vs-revoke", []LinOp{o("CreateAT", 1, 1), o("CreateRT", 1, 1)}, [][]LinOp{{o("CreateAT", 2, 1), o("CreateRT", 2, 1)}, {o("RevokeRT", 0, 1), o("RevokeAT", 0, 1)}, {o("RotateRT", 1, 1), o("GetRT", 2, 0)}}},
		// revocations of UNRELATED grants at once, in a table with many other tokens: neither may undo the other
		{"revoke-unrelated", append([]LinOp{o("CreateAT", 1, 1), o("CreateAT", 2, 2), o("CreateAT", 3, 3)}, manyATs(40)...),
			[][]LinOp{{o("RevokeAT", 0, 1), o("GetAT", 1, 0)}, {o("RevokeAT", 0, 2), o("GetAT", 2, 0)}, {o("RevokeAT", 0, 3), o("GetAT", 3, 0), o("GetAT", 1, 0), o("GetAT", 2, 0)}}},
		{"dev-create-invalidate", nil, [][]LinOp{{o("CreateDev", 1, 1), o("GetDev", 1, 0)}, {o("InvalidateDev", 1, 0), o("GetDev", 1, 0)}, {o("CreateDev", 2, 2), o("InvalidateDev", 2, 0)}}},
		{"device", []LinOp{o("CreateDev", 1, 1)}, [][]LinOp{{o("GetDev", 1, 0), o("InvalidateDev", 1, 0)}, {o("GetDev", 1, 0), o("InvalidateDev", 1, 0)}, {o("GetDev", 1, 0)}}},
	}
}

// one free-running trial; returns the events in counter order, or nil on a deadlock
func linTrial(sc linScenario, h int) ([]LinEvent, bool) {
	s := storage.NewMemoryStore()
	var seq atomic.Int64
	var mu sync.Mutex
	evs := []LinEvent{{Ev: "reset", H: h, Scn: sc.name}}
	emit := func(e LinEvent) {
		mu.Lock()
		evs = append(evs, e)
		mu.Unlock()
	}
	run := func(p int, ops []LinOp, start <-chan struct{}) {
		if start != nil {
			<-start
		}
		for _, op := range ops {
			c := seq.Add(1)
			res := linExec(s, op)
			r := seq.Add(1)
			emit(LinEvent{Ev: "call", H: h, P: p, M: op.M, K: op.K, R: op.R, seq: c})
			emit(LinEvent{Ev: "ret", H: h, P: p, Res: res, seq: r})
		}
	}
	run(0, sc.setup, nil)
	start := make(chan struct{})
	var wg sync.WaitGroup
	for i, ops := range sc.procs {
		wg.Add(1)
		go func() {
			defer wg.Done()
			run(i+1, ops, start)
		}()
	}
	done := make(chan struct{})
	go func() { wg.Wait(); close(done) }()
	close(start)
	select {
	case <-done:
	case <-time.After(10 * time.Second):
		return nil, false
	}
	sort.SliceStable(evs, func(a, b int) bool { return evs[a].seq < evs[b].seq })
	return evs, true
}

// manyATs: n access tokens of n other grants (keys and request ids from 100 up)
func manyATs(n int) []LinOp {
	out := []LinOp{}
	for i := 0; i < n; i++ {
		out = append(out, LinOp{M: "CreateAT", K: 100 + i, R: 100 + i})
	}
	return out
}

func TestLin(t *testing.T) {
	out := os.Getenv("VERIF_LIN_OUT")
	if out == "" {
		t.Skip("VERIF_LIN_OUT not set")
	}
	n, _ := strconv.Atoi(os.Getenv("VERIF_N"))
	if n <= 0 {
		n = 2000
	}
	runtime.GOMAXPROCS(runtime.NumCPU())
	f, err := os.Create(out)
	if err != nil {
		t.Fatal(err)
	}
	defer f.Close()
	wr := bufio.NewWriter(f)
	defer wr.Flush()
	enc := json.NewEncoder(wr)
	h, trials, deadlocks := 0, 0, 0
	perScn := map[string]int{}
	for _, sc := range linScenarios() {
		seen := map[string]bool{}
		for i := 0; i < n; i++ {
			trials++
			evs, ok := linTrial(sc, 0)
			if !ok {
				deadlocks++
				fmt.Fprintf(os.Stderr, "LIN-DEADLOCK scenario=%s\n", sc.name)
				break
			}
			var sb strings.Builder
			for _, e := range evs {
				fmt.Fprintf(&sb, "%s/%d/%s/%d/%d/%s;", e.Ev, e.P, e.M, e.K, e.R, e.Res)
			}
			if seen[sb.String()] { // only distinct histories are validated
				continue
			}
			seen[sb.String()] = true
			h++
			for _, e := range evs {
				e.H = h
				e.Scn = sc.name
				if err := enc.Encode(e); err != nil {
					t.Fatal(err)
				}
			}
		}
		perScn[sc.name] = len(seen)
	}
	js, _ := json.Marshal(map[string]interface{}{"trials": trials, "distinct_histories": h, "deadlocks": deadlocks, "per_scenario": perScn})
	fmt.Fprintf(os.Stderr, "LIN-STATS %s\n", js)
}
