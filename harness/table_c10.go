package harness

import (
	"context"
	"encoding/json"
	"net/http/httptest"
	"net/url"
	"strings"
	"sync"

	"golang.org/x/crypto/bcrypt"

	"github.com/ory/fosite"
)

func init() {
	tableRunners["c10"] = runC10
	bubbleKinds["c10"] = true
}

var (
	c10Secrets = map[string]string{"current": "cur s3cr&t=+/%41", "rotated": "rot-1 &=%", "rotated2": "rot-2", "other_client": "secret of the other client", "wrong": "not a secret of anybody"}
	c10HashMu  sync.Mutex
	c10Hashes  = map[string][]byte{}
)

func c10Hash(s string) []byte {
	c10HashMu.Lock()
	defer c10HashMu.Unlock()
	if h, ok := c10Hashes[s]; ok {
		return h
	}
	h, err := bcrypt.GenerateFromPassword([]byte(s), 4)
	if err != nil {
		panic(err)
	}
	c10Hashes[s] = h
	return h
}

var writeMethods = map[string]bool{"CreateAuthorizeCodeSession": true, "InvalidateAuthorizeCodeSession": true, "CreateAccessTokenSession": true,
	"DeleteAccessTokenSession": true, "CreateRefreshTokenSession": true, "DeleteRefreshTokenSession": true, "RotateRefreshToken": true,
	"RevokeRefreshToken": true, "RevokeAccessToken": true, "CreatePKCERequestSession": true, "DeletePKCERequestSession": true,
	"CreateOpenIDConnectSession": true, "DeleteOpenIDConnectSession": true, "CreatePARSession": true, "DeletePARSession": true,
	"CreateDeviceAuthSession": true, "InvalidateDeviceCodeSession": true}

func runC10(rep *TReport, raw json.RawMessage) {
	var r struct {
		Reg struct {
			Kind, Method string
			Public       bool
			Rotated      int
			Nosecret     bool
		}
		Transport, Secret, Endpoint string
		Known                       bool
		Auth, Outcome               string
	}
	if err := json.Unmarshal(raw, &r); err != nil {
		panic(err)
	}
	cfg := DefaultCfg()
	cfg.RScopes = []string{}
	w := NewWorld(cfg)
	w.Config.ClientSecretsHasher = &fosite.BCrypt{Config: &fosite.Config{HashCost: 4}}
	// the other client (its secret must never authenticate X)
	other := newClient("Y", false)
	other.RedirectURIs = []string{"https://y.example/cb", "https://x.example/cb"} // both clients may use X's redirect URI: a request of X is a valid request of Y, too
	other.Secret = c10Hash(c10Secrets["other_client"])
	w.Mem.Clients["Y"] = other
	RedirectOf["X"] = "https://x.example/cb"
	base := newClient("X", r.Reg.Public)
	base.RedirectURIs = []string{"https://x.example/cb"}
	base.Secret = c10Hash(c10Secrets["current"])
	if r.Reg.Nosecret {
		base.Secret = nil
	}
	if r.Reg.Rotated > 0 {
		base.RotatedSecrets = [][]byte{c10Hash(c10Secrets["rotated"]), c10Hash(c10Secrets["rotated2"])}
	}
	var reg fosite.Client = base
	if r.Reg.Kind == "oidc" {
		reg = &fosite.DefaultOpenIDConnectClient{DefaultClient: base, TokenEndpointAuthMethod: r.Reg.Method}
	}
	// set-up: a refresh token of client X, obtained while X is temporarily a plain public client
	rtID := 0
	if r.Endpoint == "token:refresh_token" || r.Endpoint == "revoke" {
		tmp := newClient("X", true)
		w.Mem.Clients["X"] = tmp
		ClientSecrets["X"] = ""
		o := w.Exec(1, Op{Op: "password", Client: "X", Auth: "ok", User: "ok", Scopes: []string{"offline", "a"}})
		if o.Res != "ok" || o.New["rt"] <= 0 {
			rep.Notes = append(rep.Notes, "set-up failed: "+o.Res)
			return
		}
		rtID = o.New["rt"]
	}
	w.Mem.Clients["X"] = reg

	id := "X"
	if !r.Known {
		id = "nobody"
	}
	secret := c10Secrets[r.Secret] // "" for empty
	req := postReq("/x")
	f := url.Values{}
	switch r.Transport {
	case "basic":
		req.SetBasicAuth(url.QueryEscape(id), url.QueryEscape(secret))
	case "basic_id_only":
		req.SetBasicAuth(url.QueryEscape(id), "")
	case "basic_undecodable":
		req.SetBasicAuth(id, "%zz-not-form-encoded")
	case "body":
		f.Set("client_id", id)
		if secret != "" {
			f.Set("client_secret", secret)
		}
	case "body_id_only":
		f.Set("client_id", id)
	case "basic_body_other":
		req.SetBasicAuth(url.QueryEscape(id), url.QueryEscape(secret))
		f.Set("client_id", "Y")
	case "basic_id_body_secret":
		req.SetBasicAuth(url.QueryEscape(id), "")
		if secret != "" {
			f.Set("client_secret", secret)
		}
	case "both":
		req.SetBasicAuth(url.QueryEscape(id), url.QueryEscape(secret))
		f.Set("client_id", id)
		if secret != "" {
			f.Set("client_secret", secret)
		}
	}
	w.Rec.Keep = true
	w.Rec.TakeLog()
	ctx := w.ctx(1)
	res := ""
	switch r.Endpoint {
	case "token:client_credentials", "token:password", "token:refresh_token":
		switch r.Endpoint {
		case "token:client_credentials":
			f.Set("grant_type", "client_credentials")
			f.Set("scope", "a")
		case "token:password":
			f.Set("grant_type", "password")
			f.Set("scope", "a")
			f.Set("username", Subject)
			f.Set("password", Password)
		default:
			f.Set("grant_type", "refresh_token")
			f.Set("refresh_token", w.tok("rt", rtID))
		}
		finishPost(req, f)
		o, _, _ := w.tokenCall(1, req, true)
		res = o.Res
		if o.Res != "ok" {
			rep.cmp(raw, "tokens_in_refused_response", 0, o.New["at"]+o.New["rt"], false)
		} else if o.New["at"] > 0 { // the token belongs to the client that was authenticated, not to one merely named
			ats, _ := w.Probe()
			for _, x := range ats {
				if x.ID == o.New["at"] {
					rep.cmp(raw, "client_of_issued_token", "X", x.Client, false)
				}
			}
		}
	case "revoke":
		f.Set("token", w.tok("rt", rtID))
		finishPost(req, f)
		res = errName(w.Provider.NewRevocationRequest(ctx, req))
	case "par":
		for k, v := range w.authorizeQuery(Op{Client: "X", RType: "code", Scopes: []string{"a"}, Redir: "sent"}) {
			if k != "client_id" {
				f[k] = v
			}
		}
		finishPost(req, f)
		ar, err := w.Provider.NewPushedAuthorizeRequest(ctx, req)
		if err == nil {
			_, err = w.Provider.NewPushedAuthorizeResponse(ctx, ar, NewSess(Subject))
		}
		res = errName(err)
	case "device_auth":
		f.Set("client_id", id)
		f.Set("scope", "a")
		finishPost(req, f)
		dr, err := w.Provider.NewDeviceRequest(ctx, req)
		if err == nil {
			_, err = w.Provider.NewDeviceResponse(ctx, dr, NewSess(Subject))
		}
		res = errName(err)
	}
	rep.cmp(raw, "outcome", r.Outcome, res, false)
	// a rejected presentation neither issues nor invalidates anything
	writes := []string{}
	for _, ev := range w.Rec.TakeLog() {
		if writeMethods[ev.Method] {
			writes = append(writes, ev.Method)
		}
	}
	if r.Auth != "ok" {
		rep.cmp(raw, "storage_writes_on_rejected_authentication", "", strings.Join(writes, ","), false)
		if rtID > 0 {
			_, rts := w.Probe()
			alive := false
			for _, x := range rts {
				alive = alive || x.ID == rtID
			}
			rep.cmp(raw, "token_survives_rejected_request", true, alive, false)
		}
	}
	_ = context.Background
	_ = httptest.NewRecorder
}
