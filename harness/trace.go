package harness

import (
	"bufio"
	"encoding/json"
	"fmt"
	"io"
	"os"
)

// History is one abstract history: a configuration and a sequence of operations.
type History struct {
	H   int  `json:"h"`
	Cfg Cfg  `json:"cfg"`
	Ops []Op `json:"ops"`
}

// Event is one line of the trace validated by TraceGrants.tla.
type Event struct {
	Ev   string     `json:"ev"` // "reset" | "op"
	H    int        `json:"h"`
	Cfg  *Cfg       `json:"cfg,omitempty"`
	Op   *Op        `json:"op,omitempty"`
	Obs  *Obs       `json:"obs,omitempty"`
	Now  int        `json:"now"`
	AT   []TokState `json:"at"`
	RT   []TokState `json:"rt"`
	Proj *Proj      `json:"proj,omitempty"`
}

func ReadHistories(path string) ([]History, error) {
	f, err := os.Open(path)
	if err != nil {
		return nil, err
	}
	defer f.Close()
	var hs []History
	rd := bufio.NewReaderSize(f, 1<<20)
	for n := 0; ; n++ {
		line, err := rd.ReadBytes('\n')
		if len(line) > 1 {
			var h History
			if e := json.Unmarshal(line, &h); e != nil {
				return nil, fmt.Errorf("line %d: %v", n+1, e)
			}
			if h.H == 0 {
				h.H = n + 1
			}
			hs = append(hs, h)
		}
		if err == io.EOF {
			break
		}
		if err != nil {
			return nil, err
		}
	}
	return hs, nil
}

// RunHistory executes one history on a fresh world (inside the caller's synctest bubble)
// and returns its trace events.
func RunHistory(h History) (evs []Event) {
	cfg := h.Cfg
	evs = append(evs, Event{Ev: "reset", H: h.H, Cfg: &cfg, AT: []TokState{}, RT: []TokState{}})
	w := NewWorld(h.Cfg)
	w.Rec.Keep = false
	for i := range h.Ops {
		op := h.Ops[i].Norm()
		obs := safeExec(w, 1, op)
		at, rt := w.Probe()
		pr := w.Project()
		evs = append(evs, Event{Ev: "op", H: h.H, Op: &op, Obs: &obs, Now: w.Now(), AT: at, RT: rt, Proj: &pr})
	}
	return evs
}

func safeExec(w *World, p int, op Op) (o Obs) {
	defer func() {
		if r := recover(); r != nil {
			o = newObs()
			o.Res = "PANIC"
			o.Note = fmt.Sprint(r)
		}
	}()
	return w.Exec(p, op)
}

// Norm replaces nil slices by empty ones so the trace never contains JSON null (the TLA+
// Json module cannot represent it).
func (o Op) Norm() Op {
	if o.Op == "password" && o.Grant == nil { // a password operation without the field: the application grants what was requested
		o.Grant = append([]string{}, o.Scopes...)
	}
	for _, p := range []*[]string{&o.Scopes, &o.Grant, &o.Aud, &o.XScope, &o.XAud, &o.Need} {
		if *p == nil {
			*p = []string{}
		}
	}
	if o.GAud == nil {
		o.GAud = []string{"*"}
	}
	return o
}
