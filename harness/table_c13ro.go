package harness

import (
	"context"
	"encoding/json"
	"io"
	"net/http"
	"net/http/httptest"
	"net/url"
	"strings"

	"github.com/go-jose/go-jose/v3"
	"github.com/hashicorp/go-retryablehttp"

	"github.com/ory/fosite"
)

func init() { tableRunners["c13ro"] = runC13RO }

type roundTrip func(*http.Request) (*http.Response, error)

func (f roundTrip) RoundTrip(r *http.Request) (*http.Response, error) { return f(r) }

func runC13RO(rep *TReport, raw json.RawMessage) {
	var r struct {
		Client struct {
			Kind, RegAlg string
			Keys, URIs   bool `json:"-"`
			KeysJ        bool `json:"keys"`
			URIsJ        bool `json:"uris"`
		}
		OpenID            bool `json:"openid"`
		Mode, ObjAlg, URI string
		Outcome           string
	}
	if err := json.Unmarshal(raw, &r); err != nil {
		panic(err)
	}
	w := NewWorld(DefaultCfg())
	w.Rec.Keep = false
	_, ek, rk2 := Keys()
	base := newClient("R", false)
	base.RedirectURIs = []string{"https://r.example/cb"}
	base.Scopes = []string{"openid", "a", "b"}
	const registeredURI = "https://r.example/request.jwt"
	const otherURI = "https://r.example/other.jwt"
	var client fosite.Client = base
	if r.Client.Kind == "oidc" {
		oc := &fosite.DefaultOpenIDConnectClient{DefaultClient: base, RequestObjectSigningAlgorithm: r.Client.RegAlg, TokenEndpointAuthMethod: "client_secret_basic"}
		if r.Client.KeysJ {
			oc.JSONWebKeys = &jose.JSONWebKeySet{Keys: []jose.JSONWebKey{
				{Key: &rk2.PublicKey, KeyID: "ro-rsa", Use: "sig", Algorithm: "RS256"},
				{Key: &ek.PublicKey, KeyID: "ro-ec", Use: "sig", Algorithm: "ES256"}}}
		}
		if r.Client.URIsJ {
			oc.RequestURIs = []string{registeredURI}
		}
		client = oc
	}
	w.Mem.Clients["R"] = client
	// the request object carries its own state and scope
	claims := map[string]interface{}{"state": "state-from-the-object", "scope": "openid b", "client_id": "R", "response_type": "code",
		"redirect_uri": "https://r.example/cb"}
	var obj string
	switch r.ObjAlg {
	case "RS256_registered_key":
		obj = signJWT("RS256", rk2, "ro-rsa", claims)
	case "RS256_other_key":
		obj = signJWT("RS256", unregisteredKey(), "ro-rsa", claims)
	case "ES256_registered_key":
		obj = signJWT("ES256", ek, "ro-ec", claims)
	case "HS256":
		obj = signJWT("HS256", []byte("secret-of-R-secret-of-R-secret-of-R"), "", claims)
	default:
		obj = signJWT("none", nil, "", claims)
	}
	hc := retryablehttp.NewClient()
	hc.RetryMax = 0
	hc.Logger = nil
	hc.HTTPClient = &http.Client{Transport: roundTrip(func(req *http.Request) (*http.Response, error) {
		return &http.Response{StatusCode: 200, Body: io.NopCloser(strings.NewReader(obj)), Header: http.Header{}, Request: req}, nil
	})}
	w.Config.HTTPClient = hc
	q := url.Values{}
	q.Set("client_id", "R")
	q.Set("response_type", "code")
	q.Set("redirect_uri", "https://r.example/cb")
	q.Set("state", "state-from-the-query")
	if r.OpenID {
		q.Set("scope", "openid a")
	} else {
		q.Set("scope", "a")
	}
	uri := registeredURI
	if r.URI == "unregistered" {
		uri = otherURI
	}
	if r.URI == "registered_extended" {
		uri = registeredURI + ".old"
	}
	switch r.Mode {
	case "request":
		q.Set("request", obj)
	case "request_uri":
		q.Set("request_uri", uri)
	default:
		q.Set("request", obj)
		q.Set("request_uri", uri)
	}
	req := httptest.NewRequest("GET", "https://issuer.example/auth?"+q.Encode(), nil)
	ar, err := w.Provider.NewAuthorizeRequest(context.Background(), req)
	got := "refused"
	if err == nil {
		switch ar.GetState() {
		case "state-from-the-object":
			got = "honoured"
		case "state-from-the-query":
			got = "ignored"
		default:
			got = "state:" + ar.GetState()
		}
		if got == "ignored" && ar.GetRequestedScopes().Has("b") {
			got = "partly-honoured"
		}
	}
	rep.cmp(raw, "request_object", r.Outcome, got, false)
}
