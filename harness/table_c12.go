package harness

import (
	"encoding/json"
	"strings"

	"github.com/ory/fosite"
	"github.com/ory/fosite/storage"

	"github.com/go-jose/go-jose/v3"
)

func init() {
	tableRunners["c12scope"] = runC12Scope
	tableRunners["c12aud"] = runC12Aud
	tableRunners["c12flow"] = runC12Flow
	bubbleKinds["c12flow"] = true
}

func runC12Scope(rep *TReport, raw json.RawMessage) {
	var r struct {
		P, N              []string
		Exact, Hier, Wild bool
		WildUndet         bool `json:"wild_undet"`
	}
	if err := json.Unmarshal(raw, &r); err != nil {
		panic(err)
	}
	p, n := strings.Join(r.P, "."), strings.Join(r.N, ".")
	rep.cmp(raw, "exact", r.Exact, fosite.ExactScopeStrategy([]string{p}, n), false)
	rep.cmp(raw, "hierarchic", r.Hier, fosite.HierarchicScopeStrategy([]string{p}, n), false)
	rep.cmp(raw, "wildcard", r.Wild, fosite.WildcardScopeStrategy([]string{p}, n), r.WildUndet)
	// a haystack of two patterns is the disjunction; the non-matching filler must not change the verdict
	filler := "zz.never"
	rep.cmp(raw, "exact2", r.Exact, fosite.ExactScopeStrategy([]string{filler, p}, n), false)
	rep.cmp(raw, "hierarchic2", r.Hier, fosite.HierarchicScopeStrategy([]string{filler, p}, n), false)
	rep.cmp(raw, "wildcard2", r.Wild, fosite.WildcardScopeStrategy([]string{p, filler}, n), r.WildUndet)
}

type tURL struct {
	Scheme, Host string
	Path         struct {
		Segs  []string
		Slash bool
	}
}

func (u tURL) String() string {
	s := u.Scheme + "://" + u.Host
	if len(u.Path.Segs) > 0 {
		s += "/" + strings.Join(u.Path.Segs, "/")
	}
	if u.Path.Slash {
		s += "/"
	}
	return s
}

func runC12Aud(rep *TReport, raw json.RawMessage) {
	var r struct {
		H, N         tURL
		Match, Exact bool
		Undet        bool
	}
	if err := json.Unmarshal(raw, &r); err != nil {
		panic(err)
	}
	h, n := r.H.String(), r.N.String()
	rep.cmp(raw, "default", r.Match, fosite.DefaultAudienceMatchingStrategy([]string{h}, []string{n}) == nil, r.Undet)
	rep.cmp(raw, "exact", r.Exact, fosite.ExactAudienceMatchingStrategy([]string{h}, []string{n}) == nil, false)
	rep.cmp(raw, "default2", r.Match, fosite.DefaultAudienceMatchingStrategy([]string{"https://zz.never/", h}, []string{n}) == nil, r.Undet)
}

// runC12Flow drives one flow with a registration that does / does not cover the request.
func runC12Flow(rep *TReport, raw json.RawMessage) {
	var r struct {
		Flow, Strat, Dim string
		P, N             json.RawMessage
		H                json.RawMessage
		Accept           bool
	}
	if err := json.Unmarshal(raw, &r); err != nil {
		panic(err)
	}
	cfg := DefaultCfg()
	cfg.RScopes = []string{}
	w := NewWorld(cfg)
	w.Rec.Keep = false
	reg, req := "", ""
	scopeDim := r.Dim == "scope"
	if scopeDim {
		var p, n []string
		json.Unmarshal(r.P, &p)
		json.Unmarshal(r.N, &n)
		reg, req = strings.Join(p, "."), strings.Join(n, ".")
		switch r.Strat {
		case "exact":
			w.Config.ScopeStrategy = fosite.ExactScopeStrategy
		case "hier":
			w.Config.ScopeStrategy = fosite.HierarchicScopeStrategy
		default:
			w.Config.ScopeStrategy = fosite.WildcardScopeStrategy
		}
	} else {
		var h, n tURL
		json.Unmarshal(r.H, &h)
		json.Unmarshal(r.N, &n)
		reg, req = h.String(), n.String()
		if r.Strat == "exact" {
			w.Config.AudienceMatchingStrategy = fosite.ExactAudienceMatchingStrategy
		} else {
			w.Config.AudienceMatchingStrategy = fosite.DefaultAudienceMatchingStrategy
		}
	}
	cname := "A"
	if r.Flow == "device" {
		cname = "P"
	}
	client := w.Mem.Clients[cname].(*fosite.DefaultClient)
	setReg := func(v string) {
		if scopeDim {
			client.Scopes = []string{v}
		} else {
			client.Scopes = []string{"s"}
			client.Audience = []string{v}
		}
	}
	scopes, aud := []string{req}, []string{}
	if !scopeDim {
		scopes, aud = []string{"s"}, []string{req}
	}
	setReg(reg)
	var o Obs
	wantErr := "invalid_scope"
	if !scopeDim {
		wantErr = "invalid_request"
	}
	switch r.Flow {
	case "authorize_code":
		o = w.Exec(1, Op{Op: "authorize", Client: cname, RType: "code", Scopes: scopes, Grant: scopes, Aud: aud, Redir: "sent", Pkce: "none"})
	case "implicit":
		o = w.Exec(1, Op{Op: "authorize", Client: cname, RType: "token", Scopes: scopes, Grant: scopes, Aud: aud, Redir: "sent", Pkce: "none"})
	case "hybrid":
		o = w.Exec(1, Op{Op: "authorize", Client: cname, RType: "code_token", Scopes: scopes, Grant: scopes, Aud: aud, Redir: "sent", Pkce: "none"})
	case "ccreds":
		o = w.Exec(1, Op{Op: "ccreds", Client: cname, Auth: "ok", Scopes: scopes, Aud: aud})
	case "password":
		o = w.Exec(1, Op{Op: "password", Client: cname, Auth: "ok", User: "ok", Scopes: scopes, Aud: aud})
	case "device":
		o = w.Exec(1, Op{Op: "devstart", Client: cname, Auth: "ok", Scopes: scopes, Grant: scopes, Aud: aud})
	case "par":
		o = w.Exec(1, Op{Op: "push", Client: cname, Auth: "ok", RType: "code", Scopes: scopes, Aud: aud, Redir: "sent", Field: "none"})
	case "refresh":
		// obtain the grant under a registration that covers it, then narrow the registration
		setReg(req)
		if o0 := w.Exec(1, Op{Op: "password", Client: cname, Auth: "ok", User: "ok", Scopes: scopes, Aud: aud}); o0.Res != "ok" || o0.New["rt"] <= 0 {
			rep.Notes = append(rep.Notes, "refresh set-up refused: "+o0.Res+" for "+req)
			return
		}
		// a registration update stores a NEW client record (what every store that serialises clients does): the snapshot
		// inside the stored grant keeps the old registration, and only the current one may decide
		nc := *client
		client = &nc
		w.Mem.Clients[cname] = client
		setReg(reg)
		o = w.Exec(1, Op{Op: "refresh", Client: cname, Auth: "ok", Tok: 1})
	case "jwt_bearer":
		_, _, k2 := Keys()
		w.Mem.IssuerPublicKeys["issuer-1"] = storage.IssuerPublicKeys{Issuer: "issuer-1", KeysBySub: map[string]storage.SubjectPublicKeys{
			"subject-1": {Subject: "subject-1", Keys: map[string]storage.PublicKeyScopes{
				"kid-1": {Key: &jose.JSONWebKey{Key: k2.Public(), Algorithm: "RS256", Use: "sig", KeyID: "kid-1"}, Scopes: []string{reg}}}}}}
		client.Scopes = []string{"unrelated"} // the signing key's registration decides, not the client's
		o = w.doJWTBearer(1, BearerSpec{Iss: "issuer-1", Sub: "subject-1", Kid: "kid-1", Scopes: scopes, JTI: "jti-1"})
	case "jwt_bearer_client":
		_, _, k2 := Keys()
		w.Mem.IssuerPublicKeys["issuer-1"] = storage.IssuerPublicKeys{Issuer: "issuer-1", KeysBySub: map[string]storage.SubjectPublicKeys{
			"subject-1": {Subject: "subject-1", Keys: map[string]storage.PublicKeyScopes{
				"kid-1": {Key: &jose.JSONWebKey{Key: k2.Public(), Algorithm: "RS256", Use: "sig", KeyID: "kid-1"}, Scopes: []string{reg}}}}}}
		w.Config.GrantTypeJWTBearerCanSkipClientAuth = false
		client.Scopes = []string{req} // the presenting client itself may have the scope: that must not help
		o = w.doJWTBearer(1, BearerSpec{Iss: "issuer-1", Sub: "subject-1", Kid: "kid-1", Scopes: scopes, JTI: "jti-1", Client: "A"})
	}
	ok := o.Res == "ok"
	rep.cmp(raw, "accepted", r.Accept, ok, false)
	if !r.Accept && !ok {
		rep.cmp(raw, "error_class", wantErr, o.Res, false)
	}
	// "tokens never carry ... an audience that was not granted": the same request under the JWT access-token strategy, with a
	// resource owner who grants NONE of the requested audiences: the token's aud claim stays empty
	if ok && !scopeDim && (r.Flow == "authorize_code" || r.Flow == "implicit" || r.Flow == "hybrid" || r.Flow == "device") {
		jc := DefaultCfg()
		jc.RScopes, jc.AT = []string{}, "jwt"
		jw := NewWorld(jc)
		jw.Rec.Keep = false
		jw.Config.AudienceMatchingStrategy = w.Config.AudienceMatchingStrategy
		jcl := jw.Mem.Clients[cname].(*fosite.DefaultClient)
		jcl.Scopes, jcl.Audience = []string{"s"}, []string{reg}
		rtype := map[string]string{"authorize_code": "code", "implicit": "token", "hybrid": "code_token"}[r.Flow]
		if r.Flow == "device" { // the user grants none of the audiences the device asked for, then the device polls
			if jo := jw.Exec(1, Op{Op: "devstart", Client: cname, Auth: "ok", Scopes: scopes, Grant: scopes, Aud: aud, GAud: []string{"-nothing-"}}); jo.Res == "ok" {
				jw.Exec(1, Op{Op: "devdecide", Dev: jo.New["dev"], Dec: "accept"})
				po := jw.Exec(1, Op{Op: "devpoll", Client: cname, Auth: "ok", Dev: jo.New["dev"]})
				rep.cmp(raw, "device_poll_after_accept", "ok", po.Res, false)
			}
		} else {
			jo := jw.Exec(1, Op{Op: "authorize", Client: cname, RType: rtype, Scopes: scopes, Grant: scopes, Aud: aud, GAud: []string{"-nothing-"}, Redir: "sent", Pkce: "none"})
			if jo.Res == "ok" && jo.New["code"] > 0 {
				jw.Exec(1, Op{Op: "redeem", Client: cname, Auth: "ok", Code: jo.New["code"], Redir: "same", Ver: "none"})
			}
		}
		jat, _ := jw.Probe()
		for _, ts := range jat {
			rep.cmp(raw, "jwt_token_aud_when_none_granted", "", strings.Join(ts.Aud, " "), false)
		}
	}
	if ok { // tokens never carry a scope or audience that was not granted
		at, rt := w.Probe()
		for _, ts := range append(at, rt...) {
			if scopeDim {
				rep.cmp(raw, "token_scopes", strings.Join(scopes, " "), strings.Join(ts.Scopes, " "), false)
			} else if r.Flow != "jwt_bearer" && r.Flow != "jwt_bearer_client" {
				rep.cmp(raw, "token_aud", strings.Join(aud, " "), strings.Join(ts.Aud, " "), false)
			}
		}
	}
}
