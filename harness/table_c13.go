package harness

import (
	"context"
	"encoding/json"
	"html"
	"net/http/httptest"
	"net/url"
	"regexp"
	"strings"

	"github.com/ory/fosite"
)

func init() { tableRunners["c13"] = runC13 }

var formInput = regexp.MustCompile(`<input[^>]*name="([^"]*)"[^>]*value="([^"]*)"`)

// parseAuthorizeOutput splits what WriteAuthorizeResponse / WriteAuthorizeError wrote into the
// parameters found in the query, in the fragment and in a form_post body.
func parseAuthorizeOutput(rec *httptest.ResponseRecorder) (query, fragment, form url.Values, location string) {
	query, fragment, form = url.Values{}, url.Values{}, url.Values{}
	location = rec.Header().Get("Location")
	if location != "" {
		rest := location
		if i := strings.Index(rest, "#"); i >= 0 {
			fragment, _ = url.ParseQuery(rest[i+1:])
			rest = rest[:i]
		}
		if i := strings.Index(rest, "?"); i >= 0 {
			query, _ = url.ParseQuery(rest[i+1:])
		}
		return
	}
	for _, m := range formInput.FindAllStringSubmatch(rec.Body.String(), -1) {
		form.Add(html.UnescapeString(m[1]), html.UnescapeString(m[2]))
	}
	return
}

func runC13(rep *TReport, raw json.RawMessage) {
	var r struct {
		RegTypes  [][]string `json:"regtypes"`
		RegModes  string     `json:"regmodes"`
		RegGrants string     `json:"reggrants"`
		Types     []string
		Mode      string
		StateLen  int `json:"state_len"`
		Nonce     int
		OpenID    bool `json:"openid"`
		Redir     bool
		Verdict   string
		Accept    bool
		Place     string
		Code, AT  bool
		IDT       bool `json:"idt"`
	}
	if err := json.Unmarshal(raw, &r); err != nil {
		panic(err)
	}
	w := NewWorld(DefaultCfg())
	w.Rec.Keep = false
	base := newClient("A", false)
	base.Scopes = []string{"openid", "a"}
	base.ResponseTypes = nil
	for _, c := range r.RegTypes {
		base.ResponseTypes = append(base.ResponseTypes, strings.Join(c, " "))
	}
	switch r.RegGrants {
	case "no_implicit":
		base.GrantTypes = []string{"authorization_code", "refresh_token", "password", "client_credentials"}
	case "no_code":
		base.GrantTypes = []string{"implicit", "refresh_token", "password", "client_credentials"}
	}
	var client fosite.Client = base
	switch r.RegModes {
	case "all":
		client = &fosite.DefaultResponseModeClient{DefaultClient: base, ResponseModes: []fosite.ResponseModeType{fosite.ResponseModeQuery, fosite.ResponseModeFragment, fosite.ResponseModeFormPost}}
	case "fragment_only":
		client = &fosite.DefaultResponseModeClient{DefaultClient: base, ResponseModes: []fosite.ResponseModeType{fosite.ResponseModeFragment}}
	}
	w.Mem.Clients["A"] = client
	state := strings.Repeat("s", r.StateLen)
	q := url.Values{}
	q.Set("client_id", "A")
	q.Set("response_type", strings.Join(r.Types, " "))
	q.Set("state", state)
	if r.OpenID {
		q.Set("scope", "openid a")
	} else {
		q.Set("scope", "a")
	}
	if r.Nonce > 0 {
		q.Set("nonce", strings.Repeat("n", r.Nonce))
	}
	if r.Redir {
		q.Set("redirect_uri", RedirectOf["A"])
	}
	if r.Mode != "" {
		q.Set("response_mode", r.Mode)
	}
	ctx := context.Background()
	req := httptest.NewRequest("GET", "https://issuer.example/auth?"+q.Encode(), nil)
	rec := httptest.NewRecorder()
	verdict := "ok"
	ar, err := w.Provider.NewAuthorizeRequest(ctx, req)
	if err != nil {
		verdict = errName(err)
		w.Provider.WriteAuthorizeError(ctx, rec, ar, err)
	} else {
		for _, s := range ar.GetRequestedScopes() {
			ar.GrantScope(s)
		}
		resp, err := w.Provider.NewAuthorizeResponse(ctx, ar, NewSess(Subject))
		if err != nil {
			verdict = errName(err)
			w.Provider.WriteAuthorizeError(ctx, rec, ar, err)
		} else {
			w.Provider.WriteAuthorizeResponse(ctx, rec, ar, resp)
		}
	}
	qv, fv, form, loc := parseAuthorizeOutput(rec)
	rep.cmp(raw, "accepted", r.Accept, verdict == "ok", false)
	rep.cmp(raw, "verdict_class", r.Verdict, verdict, true)
	// tokens never travel in the query string, whatever else happens
	rep.cmp(raw, "token_in_query", false, qv.Get("access_token") != "" || qv.Get("id_token") != "", false)
	all := url.Values{}
	for _, v := range []url.Values{qv, fv, form} {
		for k, x := range v {
			all[k] = append(all[k], x...)
		}
	}
	if verdict == "ok" && r.Accept {
		place := "query"
		if len(form) > 0 {
			place = "form_post"
		} else if len(fv) > 0 {
			place = "fragment"
		}
		rep.cmp(raw, "placement", r.Place, place, false)
		rep.cmp(raw, "code_issued", r.Code, all.Get("code") != "", false)
		rep.cmp(raw, "access_token_issued", r.AT, all.Get("access_token") != "", false)
		rep.cmp(raw, "id_token_issued", r.IDT, all.Get("id_token") != "", false)
		rep.cmp(raw, "state_echoed", state, all.Get("state"), false)
	} else if verdict != "ok" {
		// an error that is redirected carries the state unchanged and never a credential
		if loc != "" || len(form) > 0 {
			rep.cmp(raw, "state_echoed_on_error", state, all.Get("state"), false)
		}
		rep.cmp(raw, "credential_on_error", "", all.Get("code")+all.Get("access_token")+all.Get("id_token"), false)
	}
}
